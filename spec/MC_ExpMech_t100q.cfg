SPECIFICATION FairSpec
PROPERTY EventuallyDone
CHECK_DEADLOCK FALSE
INVARIANT Terminates
INVARIANT PositiveSums
INVARIANT SeriesOK
INVARIANT ResultOK
INVARIANT Emit
PROPERTY Increasing
CONSTANTS
  T = 100
  KMAX = 12
  NTERMS = 400
  POOL = "two"
