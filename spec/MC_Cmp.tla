------------------------------ MODULE MC_Cmp ------------------------------
(***************************************************************************)
(* Small-scope exhaustive model of comparison (C02) and hashing (C03).     *)
(* Three independent definitions of the order of two decimals must agree   *)
(* on every pair: aligned-digit comparison (DCmp), adjusted-exponent-first *)
(* comparison on wide decimals (WCmp, the one used for 64-bit scale gaps), *)
(* and the sign of the exact difference (DSub).  Equality is Cmp = 0 and   *)
(* coincides with identity of normal forms; the order is antisymmetric and *)
(* transitive (all triples of a pool); the hash key (normal form) agrees   *)
(* with equality.  Every pair is printed as a behaviour for the harness,   *)
(* which runs all comparison spellings on it.                              *)
(***************************************************************************)
EXTENDS Wide, TLC, Json
CONSTANTS K, PRINTK
SCALES == -2..2

VARIABLES a, b, c, ph
vars == <<a, b, c, ph>>
Small(k) == {Mk(sg, NatOf(n), sc) : n \in 0..k, sg \in {-1, 1}, sc \in SCALES}
Init == ph = 0 /\ a = DZero /\ b = DZero /\ c = DZero
PickAB == ph = 0 /\ a' \in Small(K) /\ b' \in Small(K) /\ c' = DZero /\ ph' = 1
PickC == ph = 1 /\ ToInt(a.d) <= 6 /\ ToInt(b.d) <= 6 /\ c' \in Small(6) /\ ph' = 2 /\ UNCHANGED <<a, b>>
Next == PickAB \/ PickC

W(x) == WMk(x.s, x.d, ZOfInt(x.sc))
SignOfDiff(x, y) == DSub(x, y).s
Agree == ph >= 1 =>
  /\ DCmp(a, b) = SignOfDiff(a, b)
  /\ WCmp(W(a), W(b)) = DCmp(a, b)
  /\ DCmp(a, b) = -DCmp(b, a)                          \* antisymmetry
  /\ (DCmp(a, b) = 0) = ValEq(a, b)                     \* == and cmp never disagree; equal <=> same normal form
  /\ (ValEq(a, b) = WValEq(W(a), W(b)))
  /\ DCmp(a, a) = 0
Transitive == ph = 2 =>
  /\ (DLe(a, b) /\ DLe(b, c) => DLe(a, c))
  /\ (DCmp(a, b) = 0 /\ DCmp(b, c) = 0 => DCmp(a, c) = 0)
  /\ (DLe(a, b) \/ DLe(b, a))                           \* total

\* C03, mechanism level: the data fed to the Hasher as designed in the crate (sign, then the decimal
\* digits with trailing zeros trimmed up to `scale` characters, or `-scale` zeros appended; zero is "0")
HashM(x) == IF x.d = <<>> THEN <<0>>
            ELSE <<x.s>> \o (IF x.sc > 0 THEN Shr(x.d, MinI(TZ(x.d), x.sc))
                              ELSE IF x.sc < 0 THEN Shl(x.d, -x.sc) ELSE x.d)
\* (the converse does not hold by design: 1 and 0.1 feed the same string, a legal hash collision;
\*  TLC exhibits a = -1, b = -0.1 when the converse is asserted)
HashAgrees == ph >= 1 => (ValEq(a, b) => HashM(a) = HashM(b))

Wire(y) == [s |-> y.s, l |-> IF y.d = <<>> THEN <<>> ELSE <<ToInt(y.d)>>, e |-> y.sc]
Emit == (ph = 1 /\ ToInt(a.d) <= PRINTK /\ ToInt(b.d) <= PRINTK) =>
   PrintT(<<"RUN", ToJson([gen |-> "cmp_family", a |-> Wire(a), b |-> Wire(b)])>>)
=============================================================================
