------------------------------ MODULE Decimal ------------------------------
(***************************************************************************)
(* Value semantics of a BigDecimal: (sign, digits, scale) denotes          *)
(*      sign * digits * 10^(-scale).                                       *)
(* Dec == [s : {-1,0,1}, d : BigNat, sc : Int]  with s = 0 <=> d = <<>>.    *)
(* Scales are native ints here (|scale| < 2^31); the handful of operations *)
(* whose properties talk about 64-bit scale boundaries use ZInt scales in  *)
(* module Wide.                                                            *)
(***************************************************************************)
EXTENDS BigNat

Mk(s, d, sc) == [s |-> IF d = <<>> THEN 0 ELSE s, d |-> d, sc |-> sc]
IsDec(x) == /\ DOMAIN x = {"s", "d", "sc"} /\ IsNat(x.d)
            /\ x.s \in {-1, 0, 1} /\ (x.s = 0 <=> x.d = <<>>)
DZero == Mk(0, <<>>, 0)
DOne == Mk(1, One, 0)
DIsZero(x) == x.d = <<>>

\* wire: {"s":-1|0|1, "l":[base 1e9 limbs], "e":scale}
DecOf(w) == Mk(w.s, FromLimbs9(w.l), w.e)

\* canonical (normal) form: no trailing zeros, zero = (0, 0)
Norm(x) == IF x.d = <<>> THEN DZero
           ELSE LET k == TZ(x.d) IN Mk(x.s, Shr(x.d, k), x.sc - k)
ValEq(x, y) == Norm(x) = Norm(y)

\* same value at a larger (or equal) scale
Rescale(x, sc) == Mk(x.s, Shl(x.d, sc - x.sc), sc)

DNeg(x) == Mk(-x.s, x.d, x.sc)
DAbs(x) == Mk(x.s * x.s, x.d, x.sc)

\* signed magnitude addition on aligned coefficients
SAdd(s1, d1, s2, d2) ==
  IF s1 = 0 THEN <<s2, d2>> ELSE IF s2 = 0 THEN <<s1, d1>>
  ELSE IF s1 = s2 THEN <<s1, NAdd(d1, d2)>>
  ELSE LET c == NCmp(d1, d2)
       IN IF c = 0 THEN <<0, <<>>>>
          ELSE IF c > 0 THEN <<s1, NSub(d1, d2)>> ELSE <<s2, NSub(d2, d1)>>

\* exact sum / difference / product (scale = max for + -, sum for *; callers compare by value)
DAdd(x, y) ==
  LET sc == MaxI(x.sc, y.sc)
      r == SAdd(x.s, Shl(x.d, sc - x.sc), y.s, Shl(y.d, sc - y.sc))
  IN Mk(r[1], r[2], sc)
DSub(x, y) == DAdd(x, DNeg(y))
DMul(x, y) == Mk(x.s * y.s, NMul(x.d, y.d), x.sc + y.sc)

\* adjusted exponent of the leading digit (value in [10^(adj), 10^(adj+1)) ), x # 0
Adj(x) == Len(x.d) - x.sc - 1

\* three-way compare of the denoted values
DCmpAbs(x, y) ==   \* both non-zero
  IF Adj(x) # Adj(y) THEN (IF Adj(x) < Adj(y) THEN -1 ELSE 1)
  ELSE LET sc == MaxI(x.sc, y.sc) IN NCmp(Shl(x.d, sc - x.sc), Shl(y.d, sc - y.sc))
DCmp(x, y) ==
  IF x.s # y.s THEN (IF x.s < y.s THEN -1 ELSE 1)
  ELSE IF x.s = 0 THEN 0
  ELSE x.s * DCmpAbs(x, y)
DLt(x, y) == DCmp(x, y) < 0
DLe(x, y) == DCmp(x, y) <= 0

\* from a native int
DOfInt(n) == Mk(IF n < 0 THEN -1 ELSE 1, NatOf(AbsI(n)), 0)
\* unit in the last place of x's representation
Ulp(sc) == Mk(1, One, sc)
=============================================================================
