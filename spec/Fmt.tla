-------------------------------- MODULE Fmt --------------------------------
(***************************************************************************)
(* Mechanism-level models of the formatters of the crate (C04, C16), as    *)
(* documented in the README and anchored in src/impl_fmt.rs: they produce  *)
(* TEXT (sequences of code points).  MC_Fmt checks that each of them       *)
(* satisfies the declarative relation the trace specification uses         *)
(* (FmtRelOK / FmtPrecRelOK in Ops.tla) on an exhaustive small scope, for  *)
(* several build-time configurations.                                      *)
(***************************************************************************)
EXTENDS Ops

IntText(k) == (IF k < 0 THEN <<cMinus>> ELSE <<>>) \o DigitsText(NatOf(AbsI(k)))
IntTextPlus(k) == (IF k < 0 THEN <<cMinus>> ELSE <<cPlus>>) \o DigitsText(NatOf(AbsI(k)))
SignText(a) == IF a.s < 0 THEN <<cMinus>> ELSE <<>>
ZerosText(n) == [i \in 1..n |-> c0]
MantissaText(dt) == IF Len(dt) = 1 THEN dt ELSE <<dt[1], cDot>> \o SubSeq(dt, 2, Len(dt))

\* to_scientific_notation: d.ddd e<exp>   (zero keeps its scale: 0e<-scale>)
SciM(a) == LET dt == DigitsText(a.d) IN
           IF a.d = <<>> THEN <<c0, ce>> \o IntText(-a.sc)
           ELSE SignText(a) \o MantissaText(dt) \o <<ce>> \o IntText(Len(dt) - 1 - a.sc)
\* {:e} / {:E}: d.ddd e[+-]<exp>
ExpM(a, sym) == LET dt == DigitsText(a.d) IN SignText(a) \o MantissaText(dt) \o <<sym>> \o IntTextPlus(Len(dt) - 1 - a.sc)
\* plain notation
PlainBody(a) == LET dt == DigitsText(a.d)  n == Len(dt) IN
                IF a.sc <= 0 THEN dt \o ZerosText(-a.sc)
                ELSE IF a.sc < n THEN SubSeq(dt, 1, n - a.sc) \o <<cDot>> \o SubSeq(dt, n - a.sc + 1, n)
                ELSE <<c0, cDot>> \o ZerosText(a.sc - n) \o dt
PlainM(a) == SignText(a) \o PlainBody(a)
\* engineering notation: exponent a multiple of three, one to three digits before the point
EngM(a) == IF a.d = <<>> THEN <<c0, ce, c0>>
           ELSE LET dt == DigitsText(a.d)  n == Len(dt)
                    top == n - a.sc
                    sh == IF top % 3 = 0 THEN 3 ELSE top % 3
                    ex == top - sh
                IN SignText(a) \o (IF sh >= n THEN dt \o ZerosText(sh - n)
                                   ELSE SubSeq(dt, 1, sh) \o <<cDot>> \o SubSeq(dt, sh + 1, n)) \o <<ce>> \o IntText(ex)
\* Display: exponent form beyond the configured zero counts, otherwise written out
DisplayM(a, c) ==
  LET dt == DigitsText(a.d)  n == Len(dt)
      lz == IF a.sc >= n THEN a.sc - n ELSE 0
      tz == IF a.sc < 0 THEN -a.sc ELSE 0
  IN IF lz > c.lowThr THEN ExpM(a, cE)
     ELSE IF tz > c.highThr THEN SignText(a) \o dt \o <<ce>> \o IntTextPlus(-a.sc)
     ELSE IF a.d = <<>> /\ a.sc <= 0 THEN <<c0>>
     ELSE PlainM(a)
\* {:.N}: the value rounded to scale N by the library's rounding, written with exactly N fraction digits;
\* integers whose padding exceeds the limit stay unpadded with their exponent
DisplayPrecM(a, N, c) ==
  IF a.sc <= 0 /\ (IF a.d = <<>> THEN 0 ELSE -a.sc) + (IF N > 0 THEN N + 1 ELSE 0) > c.maxPad
  THEN SignText(a) \o DigitsText(a.d) \o (IF a.sc = 0 THEN <<>> ELSE <<ce>> \o IntTextPlus(-a.sc))
  ELSE LET r == RoundToScale(a, N, c.mode)
           body == PlainBody(Mk(1, r.d, N))
       IN SignText(a) \o (IF N = 0 /\ r.d = <<>> THEN <<c0>> ELSE IF r.d = <<>> THEN <<c0, cDot>> \o ZerosText(N) ELSE body)
\* {:.Ne}: N+1 significant digits
ExpPrecM(a, N, sym, c) ==
  IF a.d = <<>> THEN <<c0>> \o (IF N > 0 THEN <<cDot>> \o ZerosText(N) ELSE <<>>) \o <<sym>> \o IntTextPlus(-a.sc)
  ELSE LET r0 == RoundToPrec(a, N + 1, c.mode)
           \* an all-nines carry yields N+2 digits 100..0: drop the last zero
           r == IF Len(r0.d) = N + 2 THEN Mk(r0.s, Shr(r0.d, 1), r0.sc - 1) ELSE r0
           dt == DigitsText(r.d)
       IN SignText(a) \o (IF N = 0 THEN dt ELSE <<dt[1], cDot>> \o SubSeq(dt, 2, Len(dt))) \o <<sym>> \o IntTextPlus(Len(dt) - 1 - r.sc)
=============================================================================
