---------------------------- MODULE MC_BigNat ----------------------------
(* Model-checks the BigNat operators: exhaustively against native TLC     *)
(* arithmetic on all pairs below N, and ring / division identities on      *)
(* pseudo-random operands of up to BIG digits (deterministic LCG).         *)
EXTENDS BigNat, TLC
CONSTANTS N, BIG, SEEDS

VARIABLES a, b, ph
vars == <<a, b, ph>>

\* ------------------------------------------------------------ small scope
Init == ph = "small" /\ a \in 0..N /\ b \in 0..N
SmallOK ==
  LET A == NatOf(a)  B == NatOf(b) IN
  /\ IsNat(A) /\ IsNat(B)
  /\ ToInt(A) = a
  /\ NAdd(A, B) = NatOf(a + b)
  /\ NMul(A, B) = NatOf(a * b)
  /\ NCmp(A, B) = (IF a < b THEN -1 ELSE IF a = b THEN 0 ELSE 1)
  /\ (a >= b => NSub(A, B) = NatOf(a - b))
  /\ NDist(A, B) = NatOf(AbsI(a - b))
  /\ (b # 0 => NDivMod(A, B) = <<NatOf(a \div b), NatOf(a % b)>>)
  /\ (b # 0 => NDivModSmall(A, b) = <<NatOf(a \div b), a % b>>)
  /\ NMulSmall(A, b) = NatOf(a * b)
  /\ \A k \in 0..4 : /\ Shl(A, k) = NatOf(a * Pow10Tab[k + 1])
                     /\ Shr(A, k) = NatOf(a \div Pow10Tab[k + 1])
                     /\ Low(A, k) = NatOf(a % Pow10Tab[k + 1])
                     /\ LowAllZero(A, k) = (a % Pow10Tab[k + 1] = 0)
  /\ TZ(A) = (IF a = 0 THEN 0 ELSE CHOOSE k \in 0..9 : a % Pow10Tab[k + 1] = 0 /\ a % Pow10Tab[k + 2] # 0)
  /\ FromLimbs9(<<a, b>>) = NAdd(NatOf(a), Shl(NatOf(b), 9))
  /\ (b <= 6 /\ a <= 30 /\ a > 0 => NPow(A, b) = NatOf(a ^ b))
  /\ NIsEven(A) = (a % 2 = 0)

\* ------------------------------------------------------------ large scope
\* pseudo-random digit sequence of length len from a seed (LCG mod 65536)
RECURSIVE LcgSeq(_, _, _)
LcgSeq(x, len, acc) == IF len = 0 THEN acc
                       ELSE LET y == (x * 421 + 17) % 65536
                            IN LcgSeq(y, len - 1, Append(acc, (y \div 7) % 10))
Rnd(seed, len) == Strip(LcgSeq(seed, len, <<>>))
BigOK(s) ==
  LET la == 1 + ((s * 37) % BIG)   lb == 1 + ((s * 101) % BIG)  lc == 1 + ((s * 13) % ((BIG \div 4) + 1))
      A == Rnd(s, la)  B == Rnd(s + 7919, lb)  C == Rnd(s + 104729, lc)
      AB == NMul(A, B)
      dm == NDivMod(A, IF C = <<>> THEN One ELSE C)
      Cn == IF C = <<>> THEN One ELSE C
  IN /\ IsNat(A) /\ IsNat(B) /\ IsNat(AB)
     /\ NSub(NAdd(A, B), B) = A
     /\ NAdd(A, B) = NAdd(B, A)
     /\ AB = NMul(B, A)
     /\ NMul(NAdd(A, B), Cn) = NAdd(NMul(A, Cn), NMul(B, Cn))
     /\ NAdd(NMul(dm[1], Cn), dm[2]) = A /\ NCmp(dm[2], Cn) < 0
     /\ (B # <<>> => NDivMod(AB, B) = <<A, <<>>>>)
     /\ NCmp(NAdd(A, One), A) = 1 /\ NCmp(A, NAdd(A, One)) = -1 /\ NCmp(A, A) = 0
     /\ NMulSmall(A, 9999999) = NMul(A, NatOf(9999999))
     /\ NDivModSmall(A, 99999989)[1] = NDiv(A, NatOf(99999989))
     /\ NatOf(NDivModSmall(A, 99999989)[2]) = NMod(A, NatOf(99999989))
     /\ NMul(NPow(Cn, 3), Cn) = NPow(Cn, 4)
     /\ NAdd(Shl(Shr(A, lc), lc), Low(A, lc)) = A

Next == ph = "small" /\ a = 0 /\ b = 0 /\ ph' = "big" /\ a' \in SEEDS /\ b' = 0
Inv == IF ph = "small" THEN SmallOK ELSE BigOK(a)
=============================================================================
