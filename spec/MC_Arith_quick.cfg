INIT Init
NEXT Next
CHECK_DEADLOCK FALSE
INVARIANT AgreesWithNative
INVARIANT Laws
INVARIANT ReprLaws
INVARIANT Emit
CONSTANTS
  K = 60
  PRINTK = {0, 1, 10}
