INIT Init
NEXT Next
CHECK_DEADLOCK FALSE
INVARIANT DecodeRight
INVARIANT NonFinite
INVARIANT ConvertRight
