----------------------------- MODULE TraceSpec -----------------------------
(***************************************************************************)
(* Trace validation: every line of a trace recorded from the real crate    *)
(* (by the harness `bdv`) is consumed by exactly one step, which evaluates *)
(* the specification of the logged operation on the logged arguments and   *)
(* the logged outcome.                                                     *)
(*                                                                         *)
(* Mismatch-and-resync: an event the specification does not explain is     *)
(* recorded in `bad` and the state is resynchronised to the                *)
(* implementation, so one defect never hides the rest of the trace.        *)
(***************************************************************************)
EXTENDS Deviations, Json, IOUtils

Rec == ndJsonDeserialize(IOEnv.TRACE)
NRec == Len(Rec)

VARIABLES l,      \* next line of the trace
          cfg,    \* build-time configuration of the crate under test (first line of the trace)
          regs,   \* registers of program traces (C19)
          hist,   \* history needed by stateful properties (hash digests, form agreement, mirror law)
          bad     \* unexplained events: <<line, verdict>>
vars == <<l, cfg, regs, hist, bad>>

DefaultCfg == [precision |-> 100, mode |-> "HalfEven", lowThr |-> 5, highThr |-> 15,
               maxPad |-> 1000, serdeLimit |-> 150000, profile |-> "?"]
EmptyHist == [hash |-> <<>>, div |-> <<>>, inv |-> <<>>]

NoRegs == [i \in 1..16 |-> DZero]
Init == l = 1 /\ cfg = DefaultCfg /\ regs = NoRegs /\ hist = EmptyHist /\ bad = <<>>

\* an argument is either inline or a register reference {"r": k}
Arg(v) == IF "r" \in DOMAIN v THEN regs[v.r] ELSE DecOf(v)
WArg(v) == IF "r" \in DOMAIN v THEN W(regs[v.r]) ELSE WOf(v)

\* explicit context of an event, or the configured defaults
PrecOf(e) == IF "p" \in DOMAIN e THEN e.p ELSE cfg.precision
ModeOf(e) == IF "m" \in DOMAIN e THEN e.m ELSE cfg.mode

\* division spellings whose left operand is a primitive (the harness marks them "lhsprim") equal to one
IsOneOverX(e) == /\ "lhsprim" \in DOMAIN e /\ "l" \in DOMAIN e.a
                 /\ e.a.l = <<1>> /\ e.a.s = 1 /\ e.a.e = 0

FArg(v) == IF "bits" \in DOMAIN v THEN Norm(FloatValue(ZOf(v.bits).m, v.w)) ELSE Arg(v)

Verdict(e) ==
  LET op == e.op IN
  CASE op = "add" -> AddOK(Arg(e.a), Arg(e.b), e.r)
    [] op = "sub" -> SubOK(Arg(e.a), Arg(e.b), e.r)
    [] op = "mul" -> MulOK(Arg(e.a), Arg(e.b), e.r)
    [] op = "load" -> RepIs(e.r, DecOf(e.a))
    [] op = "neg" -> NegOK(Arg(e.a), e.r)
    [] op = "abs" -> AbsOK(Arg(e.a), e.r)
    [] op = "double" -> DoubleOK(Arg(e.a), e.r)
    [] op = "half" -> HalfOK(Arg(e.a), e.r)
    [] op = "square" -> SquareOK(Arg(e.a), e.r)
    [] op = "cube" -> CubeOK(Arg(e.a), e.r)
    [] op = "sum" -> SumOK([i \in 1..Len(e.xs) |-> Arg(e.xs[i])], e.r)
    [] op = "abs_sub" -> Soft(AbsSubOK(Arg(e.a), Arg(e.b), e.r))
    [] op = "signum" -> Soft(SignumOK(Arg(e.a), e.r))
    [] op = "digits" -> DigitsOK(WArg(e.a), e.r)
    [] op = "sign" -> SignOK(WArg(e.a), e.r)
    [] op = "scale" -> ScaleOK(WArg(e.a), e.r)
    [] op = "is_zero" -> IsZeroOK(WArg(e.a), e.r)
    [] op = "new" -> IdentityOK(WArg(e.a), e.r)
    [] op = "parts" -> IF e.form = "ref_from_bigint"
                       THEN IdentityOK(WMk(e.a.s, FromLimbs9(e.a.l), ZZero), e.r)
                       ELSE IdentityOK(WArg(e.a), e.r)
    [] op = "normalized" -> NormalizedOK(WArg(e.a), e.r)
    [] op = "with_scale" -> WithScaleOK(Arg(e.a), e.t, e.r)
    [] op = "with_prec" -> WithPrecOK(Arg(e.a), e.p, e.r)
    [] op = "consts" -> Soft(RepIs(e.r, IF e.form = "one" THEN DOne ELSE DZero))
    [] op = "with_scale_round" -> WithScaleRoundOK(Arg(e.a), e.t, e.m, e.r)
    [] op = "round" -> WithScaleRoundOK(Arg(e.a), e.t, cfg.mode, e.r)
    [] op = "round_pair" -> RoundPairOK(e.m, e.sign, e.lhs, e.rhs, e.tz, e.r)
    [] op = "round_u32" -> RoundU32OK(e.m, e.at, e.sign, ZOf(e.value), e.tz, e.r)
    [] op = "with_precision_round" ->
         IF "P" \in DOMAIN e THEN WithPrecisionRoundWideOK(WArg(e.a), ZOf(e.P), e.m, e.r)
         ELSE WithPrecisionRoundOK(Arg(e.a), e.p, e.m, e.r)
    [] op = "ctx_round" -> WithPrecisionRoundOK(Arg(e.a), e.p, e.m, e.r)
    [] op = "ctx_add" -> CtxAddOK(Arg(e.a), Arg(e.b), e.p, e.m, e.r)
    [] op = "ctx_default" -> CtxIs(e.r, cfg.precision, cfg.mode)
    [] op = "ctx_setters" -> Soft(CtxIs(e.r, e.p, e.m))
    [] op = "cmp" -> CmpOK(e.form, WArg(e.a), WArg(e.b), e.r)
    [] op = "maxmin" -> MaxMinOK(e.form, WArg(e.a), WArg(e.b), e.r)
    [] op = "sort" -> SortOK([i \in 1..Len(e.xs) |-> WArg(e.xs[i])], e.r)
    [] op = "hash" -> HashOK(hist.hash, WArg(e.a), e.r)
    [] op = "eq_hash" -> EqHashOK(WArg(e.a), WArg(e.b), e.r)
    [] op = "hashset" -> HashSetOK([i \in 1..Len(e.xs) |-> WArg(e.xs[i])], e.r)
    [] op = "parse" -> ParseOK(e.api, IF "text" \in DOMAIN e THEN e.text ELSE e.bytes,
                               IF "radix" \in DOMAIN e THEN e.radix ELSE 10,
                               IF "utf8" \in DOMAIN e THEN e.utf8 ELSE TRUE, e.r)
    [] op = "fmt" /\ e.kind = "debug_alt" -> DebugAltOK(WArg(e.a), e.r)
    [] op = "fmt" /\ e.kind = "debug" -> DebugOK(WArg(e.a), e.r)
    [] op = "fmt" -> FormatEventOK(e, IF "N" \in DOMAIN e THEN Arg(e.a) ELSE DZero, WArg(e.a), cfg)
    [] op = "from_float" -> FromFloatOK(ZOf(e.bits).m, e.w, e.r)
    [] op = "to_float" -> ToFloatWOK(WArg(e.a), e.r)
    [] op = "float_roundtrip" -> IF e.form = "to_f32" THEN Soft(FloatRoundTripOK(ZOf(e.bits).m, e.w, e.r))     \* to_f32 is not promised by C14
                                 ELSE FloatRoundTripOK(ZOf(e.bits).m, e.w, e.r)
    [] op = "to_int" -> ToIntOK(e.form, Arg(e.a), e.r)
    [] op = "is_integer" -> IsIntegerOK(Arg(e.a), e.r)
    [] op = "from_int" -> FromIntOK(ZOf(e.v), e.r)
    [] op = "serde_roundtrip" -> SerdeRoundTripOK(e.form, WArg(e.a), e.r, cfg)
    [] op = "serde_none" -> SerdeNoneOK(e.r)
    [] op = "de_json" -> DeJsonOK(e.form, e.doc, e.r, cfg)
    [] op = "de_token" ->
         IF e.ty \in IntTypes THEN FromIntOK(ZOf(e.v), e.r)
         ELSE IF e.ty \in {"bool", "unit", "bytes"} THEN Chk(IsErr(e.r), "must-be-error")   \* (a char token is a one-character string)
         ELSE IF e.ty = "f32" THEN FromFloatOK(ZOf(e.bits).m, 32, e.r)
         ELSE IF e.ty = "f64" THEN FromFloatOK(ZOf(e.bits).m, 64, e.r)
         ELSE IF IsNumeral(e.text) THEN ParseOK("from_str", e.text, 10, TRUE, e.r) ELSE Chk(IsErr(e.r), "must-be-error")
    [] op = "exp" -> LET v == ExpOK(Arg(e.a), cfg.precision, e.r)
                     \* behaviours printed by the mechanism model MC_ExpMech (instantiated with T digits) carry the modelled routine's result
                     IN IF v = OK /\ "mech" \in DOMAIN e /\ e.T = cfg.precision /\ ~ValEq(DecOf(e.r.d), DecOf(e.mech))
                        THEN Info("result-differs-from-the-modelled-routine")
                        ELSE IF v = OK /\ "exactp" \in DOMAIN e THEN ExpDigitsOK(Arg(e.a), cfg.precision, e.r) ELSE v
    [] op = "sqrt" -> SqrtOK(IF e.form \in {"default", "ctx", "dref_ctx"} THEN "some" ELSE IF e.form = "dref_abs" THEN "abs" ELSE "copysign",
                             Arg(e.a), PrecOf(e), ModeOf(e), e.r)
    [] op = "cbrt" -> CbrtOK(Arg(e.a), PrecOf(e), ModeOf(e), e.r)
    [] op = "inverse" /\ Arg(e.a).d = <<>> -> OK                       \* C12 speaks of non-zero x only
    [] op = "inverse" -> LET v == InverseOK(Arg(e.a), PrecOf(e), ModeOf(e), e.r)
                             w == IF v = OK THEN InvAgreeOK(hist.inv, Arg(e.a), PrecOf(e), ModeOf(e), e.r) ELSE v
                         \* behaviours printed by the mechanism model MC_Inverse carry the result the modelled routine computes
                         IN IF w = OK /\ "mech" \in DOMAIN e /\ ~ValEq(DecOf(e.r.d), DecOf(e.mech))
                            THEN Info("result-differs-from-the-modelled-routine") ELSE w
    [] op = "div" ->
         \* operands may be binary floats (normal ones): they stand for the exact decimal they hold
         LET A == FArg(e.a)  B == FArg(e.b) IN
         IF B.d = <<>> THEN Chk(IsPanic(e.r), "zero-divisor-must-panic")
         ELSE IF IsOneOverX(e) \/ ("bits" \in DOMAIN e.a /\ A = DOne)      \* `1 / x` with a primitive one is the reciprocal (C12)
         THEN InverseOK(B, cfg.precision, cfg.mode, e.r)
         ELSE IF "rhsprim" \in DOMAIN e /\ Norm(DAbs(B)) = Mk(1, Two, 0)          \* division by a primitive +-2 is the exact half
         THEN (IF ~IsD(e.r) THEN Bad("outcome-kind") ELSE Chk(ValEq(DMul(DecOf(e.r.d), B), A), "half-not-exact"))
         ELSE LET v == DivOK(A, B, cfg.precision, e.r)
              IN IF v = OK THEN DivAgreeOK(hist.div, A, B, e.r) ELSE v
    [] op = "rem" -> RemOK(Arg(e.a), Arg(e.b), e.r)
    [] OTHER -> Bad("unknown-op")

\* an unexplained event may be a known finding: label it with the deviation that explains it
Explained(e, v) ==
  IF e.op = "de_json" /\ KF_C17_ValueThroughFloat(e.form, e.doc, e.r)
    THEN <<"dev", "KF-C17-value-through-f64">>
  ELSE v

Step ==
  /\ l <= NRec
  /\ l' = l + 1
  /\ LET e == Rec[l] IN
     IF e.op = "cfg"
     THEN /\ cfg' = [precision |-> e.precision, mode |-> e.mode, lowThr |-> e.lowThr,
                     highThr |-> e.highThr, maxPad |-> e.maxPad, serdeLimit |-> e.serdeLimit,
                     profile |-> e.profile]
          /\ hist' = EmptyHist
          /\ UNCHANGED <<regs, bad>>
     ELSE IF e.op = "reset"
     THEN hist' = EmptyHist /\ regs' = NoRegs /\ UNCHANGED <<cfg, bad>>
     ELSE IF e.op = "note"
     THEN UNCHANGED <<cfg, regs, hist, bad>>
     \* a program step marked "soft" exercises an operation that another property speaks about: informational here
     ELSE LET v0 == IF "soft" \in DOMAIN e THEN Soft(Verdict(e)) ELSE Verdict(e)
              v == IF v0 = OK THEN OK ELSE Explained(e, v0)
          IN
          /\ bad' = IF v = OK THEN bad ELSE Append(bad, <<l, v>>)
          /\ hist' = IF e.op = "hash" THEN [hist EXCEPT !.hash = HashRemember(hist.hash, WArg(e.a), e.r)]
                      ELSE IF e.op = "inverse" THEN [hist EXCEPT !.inv = InvRemember(hist.inv, Arg(e.a), PrecOf(e), ModeOf(e), e.r)]
                      ELSE IF e.op = "div" THEN [hist EXCEPT !.div = DivRemember(hist.div, FArg(e.a), FArg(e.b), e.r)]
                      ELSE hist
          \* the register takes the decimal the implementation produced (resynchronisation)
          /\ regs' = IF "dst" \in DOMAIN e /\ IsD(e.r) /\ "e" \in DOMAIN e.r.d THEN [regs EXCEPT ![e.dst] = DecOf(e.r.d)] ELSE regs
          /\ UNCHANGED cfg

Next == Step
Spec == Init /\ [][Next]_vars

\* acceptance: every line consumed; the list of unexplained events is printed as JSON
Done == l = NRec + 1
Report == Done => PrintT(<<"RESULT", NRec, ToJson(bad)>>)
AllConsumed == TLCGet("stats").diameter = NRec + 1
=============================================================================
