INIT Init
NEXT Next
CHECK_DEADLOCK FALSE
INVARIANT Inv
CONSTANTS
  N = 60
  BIG = 400
  SEEDS = {1,2,3,4,5,6,7,8,9,10,11,12,13,14,15,16,17,18,19,20,21,22,23,24}
