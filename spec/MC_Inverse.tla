---------------------------- MODULE MC_Inverse ----------------------------
(***************************************************************************)
(* Mechanism-level model of the reciprocal (C12), structured like          *)
(* src/arithmetic/inverse.rs: one action per step of the routine.          *)
(*                                                                         *)
(*   Pick    choose the magnitude n * 10^-sc, the precision (and, for the  *)
(*           variant that needs it inside the loop, the rounding mode)     *)
(*   Guess   make_inv_guess: LN_2 (as the binary64 nearest to ln 2, i.e.   *)
(*           6243314768165359 * 2^-53) times 2^-bits(n), converted exactly *)
(*           to a decimal (2^-k = 5^k * 10^-k), scale reduced by sc        *)
(*   First   one exact Newton step r <- r * (2 - s * r)                    *)
(*   Step    a Newton step cut to p + 2 digits by with_prec (half away     *)
(*           from zero), then the convergence test                         *)
(*   Round   the single final rounding to p digits under the context mode  *)
(*                                                                         *)
(* Variant = "fixed" is the routine as repaired (stop when the working     *)
(* value repeats or alternates, bounded number of steps, round once);      *)
(* Variant = "shipped" is the routine as it was shipped (stop when two     *)
(* successive p-digit ROUNDINGS agree) - TLC finds the early stops the     *)
(* property text describes (that configuration is expected to fail).       *)
(*                                                                         *)
(* Checked on every n <= NMAX, sc in SCALES, p <= PMAX, all seven modes:   *)
(*   GuessInBasin  0.34 < s * guess < 0.70 (so |1 - s*guess| < 1)          *)
(*   Quadratic     1 - s*r1 = (1 - s*r0)^2 exactly for the exact step      *)
(*   Terminates    the loop ends by its own test, never by the step cap,   *)
(*                 within ITERMAX steps                                    *)
(*   ResultOK      the rounded result satisfies the relation the trace     *)
(*                 specification applies to the real crate (InverseValOK)  *)
(* Every completed behaviour is printed (input, context, result) and       *)
(* replayed on the crate: the model reproduces the routine digit for digit *)
(* so the outcome is compared exactly (a difference is reported as         *)
(* informational drift; the property verdict stays InverseOK).             *)
(***************************************************************************)
EXTENDS Mech, Json
CONSTANTS NMAX, SCALES, PMAX, ITERMAX, Variant, EMITMOD

VARIABLES pc, n, sc, p, m, g, r, prev, pprev, res, iter, capped
vars == <<pc, n, sc, p, m, g, r, prev, pprev, res, iter, capped>>

ScalesZero == {0}
ScalesFew == {-2, 3}
ScalesMore == {-7, -2, 0, 3, 11}
S == Mk(1, NatOf(n), sc)
FinalRound(x, mode) == IF Digits(x) > p THEN RoundToPrec(x, p, mode) ELSE x
\* 64 + 2 * bit length of the working precision
Cap == InvCap(p)

Init == /\ pc = "pick" /\ n = 1 /\ sc = 0 /\ p = 1 /\ m = "none"
        /\ g = DZero /\ r = DZero /\ prev = DZero /\ pprev = DZero /\ res = DZero /\ iter = 0 /\ capped = FALSE

Pick == /\ pc = "pick"
        /\ n' \in 2..NMAX /\ sc' \in SCALES /\ p' \in 1..PMAX
        /\ m' \in (IF Variant = "shipped" THEN Modes ELSE {"none"})
        /\ pc' = "guess"
        /\ UNCHANGED <<g, r, prev, pprev, res, iter, capped>>
Guess == /\ pc = "guess"
         /\ g' = InvGuess(NatOf(n), sc) /\ r' = g'
         /\ pc' = "first"
         /\ UNCHANGED <<n, sc, p, m, prev, pprev, res, iter, capped>>
First == /\ pc = "first"
         /\ r' = NewtonStep(S, r)
         /\ pc' = "loop"
         \* shipped: prev_result = 1, result = 0
         /\ prev' = (IF Variant = "shipped" THEN DOne ELSE DZero) /\ pprev' = DZero /\ res' = DZero
         /\ UNCHANGED <<n, sc, p, m, g, iter, capped>>

StepFixed ==
  /\ pc = "loop" /\ Variant = "fixed"
  /\ IF iter >= Cap
       THEN pc' = "round" /\ capped' = TRUE /\ UNCHANGED <<r, prev, pprev, iter>>
       ELSE LET nr == WithPrec(NewtonStep(S, r), p + 2) IN
            /\ r' = nr /\ iter' = iter + 1 /\ capped' = capped
            /\ IF ValEq(nr, prev) \/ ValEq(nr, pprev)
                 THEN pc' = "round" /\ UNCHANGED <<prev, pprev>>
                 ELSE pc' = "loop" /\ pprev' = prev /\ prev' = nr
  /\ UNCHANGED <<n, sc, p, m, g, res>>
Round ==
  /\ pc = "round"
  /\ \E mode \in Modes : m' = mode /\ res' = FinalRound(r, mode)
  /\ pc' = "done"
  /\ UNCHANGED <<n, sc, p, g, r, prev, pprev, iter, capped>>

\* as shipped: `while prev_result != result { prev_result = result; step; result = round(running) }`
StepShipped ==
  /\ pc = "loop" /\ Variant = "shipped"
  /\ IF ValEq(prev, res) THEN pc' = "done" /\ UNCHANGED <<r, prev, res, iter, capped>>
     ELSE IF iter >= ITERMAX + 20 THEN pc' = "done" /\ capped' = TRUE /\ UNCHANGED <<r, prev, res, iter>>
     ELSE LET nr == WithPrec(NewtonStep(S, r), p + 2) IN
          /\ prev' = res /\ r' = nr /\ res' = FinalRound(nr, m) /\ iter' = iter + 1
          /\ pc' = "loop" /\ capped' = capped
  /\ UNCHANGED <<n, sc, p, m, g, pprev>>

Next == Pick \/ Guess \/ First \/ StepFixed \/ StepShipped \/ Round
Spec == Init /\ [][Next]_vars
\* "the computation terminates for every input": under weak fairness every behaviour reaches "done" ...
FairSpec == Spec /\ WF_vars(Next)
EventuallyDone == <>(pc = "done")
\* ... and (invariant Terminates below) it gets there by the loop's own test, not by the step cap

\* ---- properties
SG == DMul(S, g)
GuessInBasin == pc = "first" =>
  /\ DCmp(SG, Mk(1, NatOf(34), 2)) > 0 /\ DCmp(SG, Mk(1, NatOf(70), 2)) < 0
Quadratic == (pc = "loop" /\ iter = 0) =>
  LET e0 == DSub(DOne, SG)  e1 == DSub(DOne, DMul(S, r)) IN ValEq(e1, DMul(e0, e0))
\* every working value stays positive and below 2/s (the step never changes sign)
StaysInside == pc \in {"loop", "round", "done"} => r.s = 1 /\ DCmp(DMul(S, r), DTwo) < 0
Terminates == ~capped /\ iter <= ITERMAX
ResultOK == pc = "done" => InverseValOK(S, p, res) = OK
\* after the loop the working value is within one unit of its last (p+2-th) digit of 1/s
WorkingAccurate == (pc = "round" /\ ~capped) =>
  LET err == DAbs(DSub(DMul(S, r), DOne))
      u == Ulp(-(AdjInv(S) - (p + 2) + 1))
  IN DCmp(err, DMul(S, DAdd(u, u))) < 0

\* the one-operator transcription in Mech (used inside the exp model) computes what the step-by-step machine computes
RoutineAgrees == (pc = "done" /\ Variant = "fixed" /\ (n + p) % EMITMOD = 0) => ValEq(res, InvRoutine(S, p, m))

Wire(x) == [s |-> x.s, l |-> IF x.d = <<>> THEN <<>> ELSE <<ToInt(x.d)>>, e |-> x.sc]
Emit == (pc = "done" /\ (n + p) % EMITMOD = 0) =>
  PrintT(<<"RUN", ToJson([gen |-> "inverse_mech", a |-> Wire(S), p |-> p, m |-> m, mech |-> Wire(res), steps |-> iter])>>)
=============================================================================
