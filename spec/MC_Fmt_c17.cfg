INIT Init
NEXT Next
CHECK_DEADLOCK FALSE
INVARIANT NoPrec
INVARIANT DisplayIsJson
CONSTANTS
  LEN = 3
  SCLO0 = 40
  SCHI = 60
  NMAX = 3
