----------------------------- MODULE Rounding -----------------------------
(***************************************************************************)
(* Rounding to a scale / to a precision under the seven modes.             *)
(*   D  IsRoundedTo     - declarative: r is the neighbouring multiple of   *)
(*                        10^-t that the mode prescribes (multiplication   *)
(*                        and comparison only)                             *)
(*   M  RoundToScale    - mechanism: digit pair at the rounding point,     *)
(*                        tail flag, carry (what with_scale_round does)    *)
(*   RoundPair          - the digit-pair primitive and its meaning         *)
(***************************************************************************)
EXTENDS Decimal

Modes == {"Up", "Down", "Ceiling", "Floor", "HalfUp", "HalfDown", "HalfEven"}
Mirror(m) == CASE m = "Ceiling" -> "Floor" [] m = "Floor" -> "Ceiling" [] OTHER -> m

\* Does the magnitude move away from zero?  firstDropped = most significant discarded digit,
\* restZero = all further discarded digits are zero, keepOdd = parity of the last kept digit.
RoundAway(mode, neg, keepOdd, firstDropped, restZero) ==
  IF firstDropped = 0 /\ restZero THEN FALSE
  ELSE CASE mode = "Up" -> TRUE
         [] mode = "Down" -> FALSE
         [] mode = "Ceiling" -> ~neg
         [] mode = "Floor" -> neg
         [] OTHER -> IF firstDropped > 5 THEN TRUE
                     ELSE IF firstDropped < 5 THEN FALSE
                     ELSE IF ~restZero THEN TRUE
                     ELSE CASE mode = "HalfUp" -> TRUE
                            [] mode = "HalfDown" -> FALSE
                            [] OTHER -> keepOdd

\* M: the value of x rounded to scale t; result carries scale t
RoundToScale(x, t, mode) ==
  IF x.s = 0 THEN Mk(0, <<>>, t)
  ELSE IF t >= x.sc THEN Mk(x.s, Shl(x.d, t - x.sc), t)
  ELSE LET k == x.sc - t
           lo == Shr(x.d, k)
           up == RoundAway(mode, x.s < 0, At(x.d, k + 1) % 2 = 1, At(x.d, k), LowAllZero(x.d, k - 1))
       IN Mk(x.s, IF up THEN NAdd(lo, One) ELSE lo, t)

\* D: r is x correctly rounded to scale t under mode
IsRoundedTo(x, t, mode, r) ==
  /\ r.sc = t
  /\ IF t >= x.sc THEN r.d = Shl(x.d, t - x.sc) /\ r.s = x.s
     ELSE LET k == x.sc - t
              rk == Shl(r.d, k)               \* |r| in units of 10^-x.sc
              c == NCmp(rk, x.d)
              unit == Pow10(k)
          IN /\ (r.d # <<>> => r.s = x.s) /\ (r.d = <<>> => r.s = 0)
             /\ IF c = 0 THEN TRUE
                ELSE IF c < 0        \* r nearer to zero than x
                THEN LET diff == NSub(x.d, rk)  h == NCmp(NMulSmall(diff, 2), unit) IN
                     /\ NCmp(diff, unit) < 0
                     /\ CASE mode = "Up" -> FALSE [] mode = "Down" -> TRUE
                          [] mode = "Ceiling" -> x.s < 0 [] mode = "Floor" -> x.s > 0
                          [] mode = "HalfUp" -> h < 0 [] mode = "HalfDown" -> h <= 0
                          [] OTHER -> h < 0 \/ (h = 0 /\ At(r.d, 1) % 2 = 0)
                ELSE LET diff == NSub(rk, x.d)  h == NCmp(NMulSmall(diff, 2), unit) IN
                     /\ NCmp(diff, unit) < 0
                     /\ CASE mode = "Up" -> TRUE [] mode = "Down" -> FALSE
                          [] mode = "Ceiling" -> x.s > 0 [] mode = "Floor" -> x.s < 0
                          [] mode = "HalfUp" -> h <= 0 [] mode = "HalfDown" -> h < 0
                          [] OTHER -> h < 0 \/ (h = 0 /\ At(r.d, 1) % 2 = 0)

\* digits() of the crate: zero has one digit
Digits(x) == MaxI(1, Len(x.d))
\* rounding to p significant digits = rounding to scale sc + (p - digits)
PrecScale(x, p) == x.sc + (p - Digits(x))
RoundToPrec(x, p, mode) == RoundToScale(x, PrecScale(x, p), mode)

\* the digit-pair primitive round_pair(sign, (lhs, rhs), trailing_zeros): rounds the two-digit
\* number lhs.rhs (plus a non-zero tail if ~tz) to an integer in 0..10
RoundPair(mode, neg, lhs, rhs, tz) ==
  IF RoundAway(mode, neg, lhs % 2 = 1, rhs, tz) THEN lhs + 1 ELSE lhs
=============================================================================
