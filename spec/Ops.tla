-------------------------------- MODULE Ops --------------------------------
(***************************************************************************)
(* What the specification allows as the outcome of each public operation   *)
(* of the crate.  One operator per operation (family); each yields a       *)
(* verdict: "ok", or <<"bad", reason>>.  The trace specification evaluates *)
(* them on recorded events; the MC_* models evaluate the same operators on *)
(* exhaustive small scopes.                                                *)
(***************************************************************************)
EXTENDS Wide, Rounding, Text, Exp, Floats, FiniteSets

OK == <<"ok">>
Bad(why) == <<"bad", why>>
Chk(cond, why) == IF cond THEN OK ELSE Bad(why)
\* behaviour the specification describes but no listed property promises (error classes, Debug output, Context setters,
\* to_f32, signum, ...): a mismatch is reported as information in the evidence, never as a violation of a property
Info(why) == <<"info", why>>
ChkInfo(cond, why) == IF cond THEN OK ELSE Info(why)
Soft(v) == IF v = OK THEN OK ELSE Info(v[2])

IsD(r) == "d" \in DOMAIN r
IsPanic(r) == "panic" \in DOMAIN r
IsTimeout(r) == "timeout" \in DOMAIN r
IsNone(r) == "none" \in DOMAIN r

\* the outcome must be a decimal with exactly this value (representation free)
ValIs(r, expected) ==
  IF ~IsD(r) THEN Bad("outcome-kind") ELSE Chk(ValEq(DecOf(r.d), expected), "value")
\* the outcome must be exactly this representation (sign, digits, scale)
RepIs(r, expected) ==
  IF ~IsD(r) THEN Bad("outcome-kind") ELSE Chk(DecOf(r.d) = expected, "representation")
WRepIs(r, expected) ==
  IF ~IsD(r) THEN Bad("outcome-kind") ELSE Chk(WOf(r.d) = expected, "representation")
IntIs(r, n) == IF "i" \notin DOMAIN r THEN Bad("outcome-kind") ELSE Chk(r.i = n, "int")
BoolIs(r, b) == IF "b" \notin DOMAIN r THEN Bad("outcome-kind") ELSE Chk(r.b = b, "bool")
BigIs(r, z) == IF "n" \notin DOMAIN r THEN Bad("outcome-kind") ELSE Chk(ZOf(r.n) = z, "bigint")

\* ---------------------------------------------------------------- overload forms that exist
IntTypes == {"i8", "i16", "i32", "i64", "i128", "u8", "u16", "u32", "u64", "u128"}
TypeMin(t) == CASE t = "i8" -> ZMk(-1, NPow(Two, 7)) [] t = "i16" -> ZMk(-1, NPow(Two, 15))
                [] t = "i32" -> ZMk(-1, NPow(Two, 31)) [] t = "i64" -> ZMk(-1, P2_63)
                [] t = "i128" -> ZMk(-1, P2_127) [] OTHER -> ZZero
TypeMax(t) == CASE t = "i8" -> ZMk(1, NatOf(127)) [] t = "i16" -> ZMk(1, NatOf(32767))
                [] t = "i32" -> ZMk(1, NatOf(2147483647)) [] t = "i64" -> I64Max
                [] t = "i128" -> ZMk(1, NSub(P2_127, One))
                [] t = "u8" -> ZMk(1, NatOf(255)) [] t = "u16" -> ZMk(1, NatOf(65535))
                [] t = "u32" -> ZMk(1, NSub(NPow(Two, 32), One)) [] t = "u64" -> ZMk(1, NSub(P2_64, One))
                [] t = "u128" -> ZMk(1, NSub(P2_128, One))

\* ---------------------------------------------------------------- C01: exact arithmetic
AddOK(a, b, r) == ValIs(r, DAdd(a, b))
SubOK(a, b, r) == ValIs(r, DSub(a, b))
MulOK(a, b, r) == ValIs(r, DMul(a, b))
NegOK(a, r) == ValIs(r, DNeg(a))
AbsOK(a, r) == ValIs(r, DAbs(a))
DoubleOK(a, r) == ValIs(r, DAdd(a, a))
\* half: the result doubled is the argument (no division in the oracle)
HalfOK(a, r) == IF ~IsD(r) THEN Bad("outcome-kind")
                ELSE LET h == DecOf(r.d) IN Chk(ValEq(DAdd(h, h), a), "value")
SquareOK(a, r) == ValIs(r, DMul(a, a))
CubeOK(a, r) == ValIs(r, DMul(DMul(a, a), a))
SumOK(xs, r) == ValIs(r, FoldLeft(LAMBDA acc, x : DAdd(acc, x), DZero, xs))
AbsSubOK(a, b, r) == ValIs(r, IF DLe(a, b) THEN DZero ELSE DSub(a, b))
SignumOK(a, r) == ValIs(r, Mk(a.s, IF a.s = 0 THEN <<>> ELSE One, 0))

\* ---------------------------------------------------------------- C18: representation
DigitsOK(a, r) == IntIs(r, MaxI(1, Len(a.d)))
SignOK(a, r) == IntIs(r, a.s)
ScaleOK(a, r) == BigIs(r, a.z)                                     \* a wide
IsZeroOK(a, r) == BoolIs(r, a.d = <<>>)
IdentityOK(a, r) == WRepIs(r, a)                                   \* a wide
NormalizedOK(a, r) == WRepIs(r, WNorm(a))                          \* a wide
\* with_scale(t): exact extension for t >= scale, truncation toward zero below
WithScaleOK(a, t, r) ==
  RepIs(r, IF a.d = <<>> THEN Mk(0, <<>>, t)
           ELSE IF t >= a.sc THEN Rescale(a, t)
           ELSE Mk(a.s, Shr(a.d, a.sc - t), t))
\* with_prec(p): exact zero padding up to p digits; above, the value rounded half away from zero
WithPrecOK(a, p, r) ==
  IF p >= Digits(a) THEN RepIs(r, Rescale(a, a.sc + (p - Digits(a))))
  ELSE ValIs(r, RoundToPrec(a, p, "HalfUp"))

\* ---------------------------------------------------------------- C06: rounding to a scale
\* the mechanism-level result, cross-checked against the declarative relation on the same input
\* (a disagreement between the two would be an inconsistency of the specification, not of the code)
RoundedOrInconsistent(a, t, m) ==
  LET x == RoundToScale(a, t, m) IN IF IsRoundedTo(a, t, m, x) THEN x ELSE Assert(FALSE, <<"spec inconsistent: M vs D", a, t, m>>)
WithScaleRoundOK(a, t, m, r) == RepIs(r, RoundedOrInconsistent(a, t, m))
RoundPairOK(m, sign, lhs, rhs, tz, r) == IntIs(r, RoundPair(m, sign = -1, lhs, rhs, tz))
\* round_u32(at, sign, value, tz): value rounded to a multiple of 10^at; tz = "nothing non-zero beyond value"
RoundU32OK(m, at, sign, value, tz, r) ==
  LET dg == value.m
      up == RoundAway(m, sign = -1, At(dg, at + 1) % 2 = 1, At(dg, at), tz /\ LowAllZero(dg, at - 1))
      q == IF up THEN NAdd(Shr(dg, at), One) ELSE Shr(dg, at)
  IN BigIs(r, ZMk(1, Shl(q, at)))

\* ---------------------------------------------------------------- C07: rounding to a precision
WithPrecisionRoundOK(a, p, m, r) ==
  IF p >= Digits(a) THEN RepIs(r, Rescale(a, PrecScale(a, p)))
  ELSE ValIs(r, RoundedOrInconsistent(a, PrecScale(a, p), m))
\* precision / scale at the 64-bit guards: the documented panic is the only alternative to the right answer
WithPrecisionRoundWideOK(aw, P, m, r) ==
  LET dg == MaxI(1, Len(aw.d))
      ns == ZAdd(aw.z, ZSub(P, ZOfInt(dg)))
  IN IF ~FitsI64(P) \/ ~FitsI64(ns) THEN ChkInfo(IsPanic(r), "expected-precision-overflow-panic")      \* no result exists; the documented outcome is the panic
     ELSE IF ~ZSmall(ZSub(P, ZOfInt(dg))) THEN Bad("unsupported-by-spec")
     ELSE LET rel == ZToInt(ZSub(P, ZOfInt(dg)))
              r0 == RoundToScale(Mk(aw.s, aw.d, 0), rel, m)
          IN IF ~IsD(r) THEN Bad("outcome-kind")
             ELSE LET rw == WOf(r.d) IN
                  IF rel >= 0 THEN Chk(rw = WMk(r0.s, r0.d, ns), "representation")
                  ELSE Chk(WValEq(rw, WMk(r0.s, r0.d, ns)), "value")
CtxAddOK(a, b, p, m, r) == LET sum == DAdd(a, b) IN ValIs(r, RoundToPrec(sum, p, m))
CtxIs(r, p, m) == IF "ctx" \notin DOMAIN r THEN Bad("outcome-kind")
                  ELSE Chk(r.ctx.precision = p /\ r.ctx.mode = m, "context")

\* ---------------------------------------------------------------- C02: comparison (wide decimals: any i64 scales)
CmpOK(form, a, b, r) ==
  LET c == WCmp(a, b) IN
  CASE form \in {"eq_val", "eq_ref", "eq_dref", "eq_dref_ref"} -> BoolIs(r, c = 0)
    [] form \in {"ne_val", "ne_dref"} -> BoolIs(r, c # 0)
    [] form \in {"lt_val", "lt_dref"} -> BoolIs(r, c < 0)
    [] form \in {"le_val", "le_dref"} -> BoolIs(r, c <= 0)
    [] form \in {"gt_val", "gt_dref"} -> BoolIs(r, c > 0)
    [] form \in {"ge_val", "ge_dref"} -> BoolIs(r, c >= 0)
    [] form \in {"cmp_val", "cmp_dref", "partial_cmp_val", "partial_cmp_dref"} -> IntIs(r, c)
    [] OTHER -> Bad("unknown-form")
\* max / min return one of the two arguments, the one the order prescribes
MaxMinOK(form, a, b, r) ==
  IF ~IsD(r) THEN Bad("outcome-kind")
  ELSE LET x == WOf(r.d)  c == WCmp(a, b)
           want == IF form \in {"max", "max_dref"} THEN (IF c > 0 THEN a ELSE b) ELSE (IF c <= 0 THEN a ELSE b)
       IN Chk(WValEq(x, want) /\ (x = a \/ x = b), "maxmin")
\* sort: the output is a permutation of the input (as representations) and non-decreasing by value
SortOK(xs, r) ==
  IF "ds" \notin DOMAIN r THEN Bad("outcome-kind")
  ELSE LET ys == [i \in 1..Len(r.ds) |-> WOf(r.ds[i])]
           count(seq, v) == Cardinality({i \in 1..Len(seq) : seq[i] = v})
       IN Chk(/\ Len(ys) = Len(xs)
              /\ \A i \in 1..Len(xs) : count(ys, xs[i]) = count(xs, xs[i])
              /\ \A i \in 1..(Len(ys) - 1) : WCmp(ys[i], ys[i + 1]) <= 0, "sort")

\* ---------------------------------------------------------------- C03: hash agrees with equality
\* history: sequence of <<normal form, digest record>>; a value seen before must produce the same digests
HashLookup(hs, key) == SelectInSeq(hs, LAMBDA p : p[1] = key)
HashDigest(r) == <<r.h, r.len, r.dh, r.calls>>
HashOK(hs, a, r) ==
  IF "h" \notin DOMAIN r THEN Bad("outcome-kind")
  ELSE LET k == HashLookup(hs, WNorm(a))
       IN IF k = 0 THEN OK ELSE Chk(hs[k][2] = HashDigest(r), "hash-differs-for-equal-values")
HashRemember(hs, a, r) ==
  IF "h" \notin DOMAIN r \/ HashLookup(hs, WNorm(a)) # 0 THEN hs ELSE Append(hs, <<WNorm(a), HashDigest(r)>>)
\* whenever the crate itself says two decimals are equal, it must have fed identical data for both;
\* and whenever they ARE equal (by the specification) the data must be identical too
EqHashOK(a, b, r) ==
  IF "eq" \notin DOMAIN r THEN Bad("outcome-kind")
  ELSE Chk((r.eq => r.ha = r.hb) /\ (WValEq(a, b) => r.ha = r.hb), "equal-values-hash-differently")
\* a HashSet built from the values has exactly one entry per distinct value
HashSetOK(xs, r) == IntIs(r, Cardinality({WNorm(xs[i]) : i \in 1..Len(xs)}))

\* ---------------------------------------------------------------- C05: parsing
IsErr(r) == "err" \in DOMAIN r
\* text: code points (or bytes; every grammar character is ASCII, so a byte string is a numeral iff it is one as text)
\* (growth beyond C05) the class of the error value: parse_bytes reports None, the others the class the mechanism predicts
ErrKindOK(api, expected, r) ==
  IsErr(r) /\ (IF api \in {"parse_bytes", "parse_bytes_radix"} THEN r.err = "None" ELSE r.err = expected)
ParseOK(api, text, radix, validUtf8, r) ==
  IF ~validUtf8 THEN Chk(IsErr(r), "must-be-error")
  ELSE IF radix # 10 THEN (IF ~IsErr(r) THEN Bad("must-be-error") ELSE ChkInfo(ErrKindOK(api, "Other", r), "error-class"))
  ELSE IF IsNumeral(text)
       THEN (IF ~IsD(r) THEN Bad("numeral-rejected") ELSE Chk(WOf(r.d) = ParseValue(text), "parsed-value"))
       ELSE IF ~IsErr(r) THEN Bad("non-numeral-accepted-or-panic")
       ELSE ChkInfo(ErrKindOK(api, AlgoErrKind(text), r), "error-class")

\* ---------------------------------------------------------------- C04: every rendering parses back
HasExpMarker(t) == EPos(t) # 0
TextFracDigits(t) == FracDigits(BodyOf(BaseOf(t)))
\* value of a written out with its -scale zeros (scale 0); only for small negative scales
Padded(a) == WMk(a.s, Shl(a.d, -ZToInt(a.z)), ZZero)
\* common part: the output is a numeral, and the crate's own parser reads it back as the grammar says
Renders(r) == "t" \in DOMAIN r /\ "rp" \in DOMAIN r
ReadBack(t, rp) == IsNumeral(t) /\ IsD(rp) /\ WOf(rp.d) = ParseValue(t)
\* how the re-parsed decimal must relate to the original, per renderer (a is wide)
FmtRelOK(kind, a, t, c) ==
  LET pv == ParseValue(t)
      len == MaxI(1, Len(a.d))
      small == ZSmall(a.z)
      negScale == a.z.s < 0
      tz == IF negScale THEN ZNeg(a.z) ELSE ZZero                         \* trailing zeros Display would write
      lz == IF ZLe(ZOfInt(len), a.z) THEN ZSub(a.z, ZOfInt(len)) ELSE ZZero  \* zeros between point and first digit
      useExp == ZLt(ZOfInt(c.lowThr), lz) \/ ZLt(ZOfInt(c.highThr), tz)
  IN CASE kind = "display" ->
            /\ HasExpMarker(t) = useExp                                       \* threshold law
            /\ Len(t) <= len + c.lowThr + c.highThr + 28                      \* no long runs of zeros
            /\ IF negScale /\ ~useExp THEN pv = Padded(a) ELSE pv = a         \* identical digits and scale outside the padded range
       [] kind = "lowerexp" -> pv = a /\ HasExpMarker(t) /\ t[EPos(t)] = ce
       [] kind = "upperexp" -> pv = a /\ HasExpMarker(t) /\ t[EPos(t)] = cE
       [] kind = "sci" -> pv = a /\ HasExpMarker(t)
       [] kind = "eng" -> WValEq(pv, a) /\ HasExpMarker(t) /\ NDivModSmall(ExpValue(ExpOf(t)).m, 3)[2] = 0
       [] kind = "plain" -> ~HasExpMarker(t) /\ (IF negScale THEN small /\ pv = Padded(a) ELSE pv = a)
       [] OTHER -> FALSE
FmtOK(kind, a, r, c) ==
  IF ~Renders(r) THEN Bad("outcome-kind")
  ELSE IF ~ReadBack(r.t, r.rp) THEN Bad("output-does-not-read-back")
  ELSE Chk(FmtRelOK(kind, a, r.t, c), "reparsed-decimal-differs")

\* {:#?} : BigDecimal("<unscaled integer>e<-scale>")  - the representation, readable back through the parser
DbgPrefix == <<66, 105, 103, 68, 101, 99, 105, 109, 97, 108, 40, 34>>        \* BigDecimal("
DbgSuffix == <<34, 41>>                                                       \* ")
DebugAltOK(a, r) ==
  IF "t" \notin DOMAIN r THEN Bad("outcome-kind")
  ELSE LET want == DbgPrefix \o (IF a.s < 0 THEN <<cMinus>> ELSE <<>>) \o DigitsText(a.d) \o <<ce>> \o ZText(ZNeg(a.z)) \o DbgSuffix
           inner == SubSeq(r.t, Len(DbgPrefix) + 1, Len(r.t) - 2)
       IN ChkInfo(r.t = want /\ (FitsI64(ZNeg(a.z)) => IsNumeral(inner) /\ ParseValue(inner) = a), "debug-representation")

\* {:?} : BigDecimal(sign=Plus, scale=2, digits=[<base-2^64 limbs, little endian>])
RECURSIVE Limbs64(_)
Limbs64(d) == IF d = <<>> THEN <<>> ELSE LET dm == NDivMod(d, P2_64) IN <<dm[2]>> \o Limbs64(dm[1])
RECURSIVE JoinLimbs(_, _)
JoinLimbs(ls, i) == IF i > Len(ls) THEN <<>>
                    ELSE DigitsText(ls[i]) \o (IF i < Len(ls) THEN <<44, 32>> ELSE <<>>) \o JoinLimbs(ls, i + 1)
DebugOK(a, r) ==
  IF "t" \notin DOMAIN r THEN Bad("outcome-kind")
  ELSE LET sg == IF a.s > 0 THEN <<80, 108, 117, 115>> ELSE IF a.s < 0 THEN <<77, 105, 110, 117, 115>> ELSE <<78, 111, 83, 105, 103, 110>>
           want == <<66, 105, 103, 68, 101, 99, 105, 109, 97, 108, 40, 115, 105, 103, 110, 61>> \o sg
                   \o <<44, 32, 115, 99, 97, 108, 101, 61>> \o ZText(a.z)
                   \o <<44, 32, 100, 105, 103, 105, 116, 115, 61, 91>> \o JoinLimbs(Limbs64(a.d), 1) \o <<93, 41>>
       IN ChkInfo(r.t = want, "debug-representation")

\* ---------------------------------------------------------------- C16: precision formatting and flags
W(x) == WMk(x.s, x.d, ZOfInt(x.sc))
\* {:.N}: exactly N digits after the point, value = the library's own rounding to scale N in the default mode
FmtPrecRelOK(kind, a, N, t, c) ==
  LET pv == ParseValue(t) IN
  CASE kind = "display" ->
         IF a.d = <<>>            \* zero: an integer zero (scale <= 0) obeys the padding limit like any integer
         THEN /\ pv.d = <<>>
              /\ (a.sc <= 0 /\ (IF N > 0 THEN N + 1 ELSE 0) > c.maxPad) \/ (~HasExpMarker(t) => TextFracDigits(t) = N)
         ELSE IF a.sc <= 0
         THEN IF (-a.sc) + (IF N > 0 THEN N + 1 ELSE 0) <= c.maxPad
              THEN ~HasExpMarker(t) /\ TextFracDigits(t) = N /\ pv = WMk(a.s, Shl(a.d, N - a.sc), ZOfInt(N))
              ELSE WValEq(pv, W(a))                 \* printed unpadded, still the exact value
         ELSE ~HasExpMarker(t) /\ TextFracDigits(t) = N /\ pv = W(RoundToScale(a, N, c.mode))
    [] kind \in {"lowerexp", "upperexp"} ->
         /\ HasExpMarker(t) /\ t[EPos(t)] = (IF kind = "lowerexp" THEN ce ELSE cE)
         /\ TextFracDigits(t) = N
         /\ IF a.d = <<>> THEN pv.d = <<>>
            ELSE WValEq(pv, W(RoundToPrec(a, N + 1, c.mode))) /\ Len(pv.d) = N + 1
    [] OTHER -> FALSE
\* width / fill / alignment / '+' / '0': std's pad_integral around the flag-free numeral
Rep(c, n) == [i \in 1..n |-> c]
PadParts(fl, plain) ==
  LET neg == plain # <<>> /\ plain[1] = cMinus
      body == IF neg THEN Tail(plain) ELSE plain
      sg == IF neg THEN <<cMinus>> ELSE IF fl.plus THEN <<cPlus>> ELSE <<>>
  IN <<sg, body>>
\* std's pad_integral: right-aligned by default, '0' flag pads after the sign
PadExpected(fl, plain) ==
  LET sg == PadParts(fl, plain)[1]  body == PadParts(fl, plain)[2]
      core == sg \o body
      pad == fl.w - Len(core)
  IN IF pad <= 0 THEN core
     ELSE IF fl.zero THEN sg \o Rep(c0, pad) \o body
     ELSE IF fl.align = "<" THEN core \o Rep(fl.fill, pad)
     ELSE IF fl.align = "^" THEN Rep(fl.fill, pad \div 2) \o core \o Rep(fl.fill, pad - (pad \div 2))
     ELSE Rep(fl.fill, pad) \o core
\* what the property promises: only padding characters (or a sign) around the numeral printed without the flags -
\* the numeral (with its sign) appears intact, everything else is fill (or zeros after the sign), the width is honoured
PadRespectsNumeral(fl, plain, t) ==
  LET sg == PadParts(fl, plain)[1]  body == PadParts(fl, plain)[2]
      core == sg \o body
      pad == fl.w - Len(core)
  IN IF pad <= 0 THEN t = core
     ELSE /\ Len(t) = fl.w
          /\ \/ \E k \in 0..pad : t = Rep(fl.fill, k) \o core \o Rep(fl.fill, pad - k)
             \/ t = sg \o Rep(c0, pad) \o body
\* one formatting event: flag-free text judged by C04 / C16, flagged text by the padding rule
FormatEventOK(e, a, aw, c) ==
  LET r == e.r IN
  IF ~Renders(r) THEN Bad("outcome-kind")
  ELSE LET hasFlags == "flags" \in DOMAIN e
           plain == IF hasFlags THEN r.plain ELSE r.t
       IN IF hasFlags /\ ~PadRespectsNumeral(e.flags, plain, r.t) THEN Bad("flags-alter-the-numeral")
          ELSE IF hasFlags /\ r.t # PadExpected(e.flags, plain) THEN Info("padding-differs-from-std-pad_integral")
          ELSE IF ~IsNumeral(plain) THEN Bad("output-not-a-numeral")
          ELSE IF ~hasFlags /\ ~ReadBack(r.t, r.rp) THEN Bad("output-does-not-read-back")
          ELSE IF "N" \in DOMAIN e THEN Chk(FmtPrecRelOK(e.kind, a, e.N, plain, c), "precision-formatting")
          ELSE Chk(FmtRelOK(e.kind, aw, plain, c), "reparsed-decimal-differs")

\* ---------------------------------------------------------------- C08: division (relational: no division in the oracle)
\* adjusted exponent of the true quotient a/b (a, b non-zero): compare the mantissas
AdjQ(a, b) ==
  LET k == Adj(a) - Adj(b)
      ge == NCmp(Shl(a.d, Len(b.d)), Shl(b.d, Len(a.d))) >= 0
  IN IF ge THEN k ELSE k - 1
\* does a/b terminate within P significant digits?  (E = AdjQ(a, b)); the only place a division is needed
HasShortQuotient(a, b, P, E) ==
  LET k == (P - 1 - E) - a.sc + b.sc
  IN IF k >= 0 THEN NMod(Shl(a.d, k), b.d) = <<>> ELSE NMod(a.d, Shl(b.d, -k)) = <<>>
DivOK(a, b, P, r) ==
  IF b.d = <<>> THEN Chk(IsPanic(r), "zero-divisor-must-panic")
  ELSE IF ~IsD(r) THEN Bad("outcome-kind")
  ELSE LET x == DecOf(r.d)
           xb == DMul(x, b)
           e == DSub(xb, a)
       IN IF e.d = <<>> THEN OK                                    \* exact quotient
          ELSE IF x.s # a.s * b.s THEN Bad("sign")
          ELSE IF Len(x.d) < P THEN Bad("fewer-digits-than-the-precision")
          ELSE LET c == DCmp(DAbs(DAdd(e, e)), DMul(DAbs(b), Ulp(x.sc))) IN
               IF c > 0 THEN Bad("more-than-half-ulp")
               ELSE IF c = 0 /\ DCmp(DAbs(xb), DAbs(a)) < 0 THEN Bad("tie-not-away-from-zero")
               ELSE LET E == AdjQ(a, b) IN
                    IF -x.sc > E - P + 1 /\ HasShortQuotient(a, b, P, E) THEN Bad("short-quotient-not-exact")
                    ELSE OK
\* all spellings of the same division (same operand representations) must return the same value
DivLookup(hs, key) == SelectInSeq(hs, LAMBDA p : p[1] = key)
DivAgreeOK(hs, a, b, r) ==
  LET k == DivLookup(hs, <<a, b>>) IN
  IF k = 0 \/ ~IsD(r) THEN OK ELSE Chk(ValEq(hs[k][2], DecOf(r.d)), "forms-disagree")
DivRemember(hs, a, b, r) ==
  IF ~IsD(r) \/ DivLookup(hs, <<a, b>>) # 0 THEN hs ELSE Append(hs, <<<<a, b>>, DecOf(r.d)>>)

\* ---------------------------------------------------------------- C09: remainder of truncated division
\* declarative: align both operands to the larger scale, remainder of the magnitudes, sign of the dividend
RemNaive(a, b) ==
  LET sc == MaxI(a.sc, b.sc)
  IN Mk(a.s, NMod(Shl(a.d, sc - a.sc), Shl(b.d, sc - b.sc)), sc)
\* 10^k mod b by square-and-multiply (depth log k)
RECURSIVE PowMod10(_, _)
PowMod10(k, b) == IF k = 0 THEN NMod(One, b)
                  ELSE IF k < 60 THEN NMod(Pow10(k), b)
                  ELSE LET h == PowMod10(k \div 2, b)  sq == NMod(NMul(h, h), b)
                       IN IF k % 2 = 0 THEN sq ELSE NMod(NMulSmall(sq, 10), b)
\* the same value without materialising 10^gap-digit operands (scale gaps up to 10^4):
\*   (A_hi*10^k + A_lo) mod (B*10^k) = (A_hi mod B)*10^k + A_lo     and     (A*10^k) mod B = ((A mod B)*(10^k mod B)) mod B
RemFast(a, b) ==
  LET sc == MaxI(a.sc, b.sc) IN
  IF a.sc >= b.sc
  THEN LET k == a.sc - b.sc IN Mk(a.s, NAdd(Shl(NMod(Shr(a.d, k), b.d), k), Low(a.d, k)), sc)
  ELSE LET k == b.sc - a.sc IN Mk(a.s, NMod(NMul(NMod(a.d, b.d), PowMod10(k, b.d)), b.d), sc)
RemOK(a, b, r) ==
  IF b.d = <<>> THEN Chk(IsPanic(r), "zero-divisor-must-panic")
  ELSE ValIs(r, IF AbsI(a.sc - b.sc) <= 40 THEN RemNaive(a, b) ELSE RemFast(a, b))

\* ---------------------------------------------------------------- C10 / C11: roots (relational: squares / cubes and comparisons only)
\* Is r the k-th root (k = 2, 3) of the non-negative x, rounded to p significant digits under mode m,
\* for a result carrying sign `neg`?  r, x are magnitudes (non-negative decimals).
PowK(y, k) == IF k = 2 THEN DMul(y, y) ELSE DMul(DMul(y, y), y)
RootRoundedOK(x, k, p, m, neg, r) ==
  LET E == Adj(x) \div k                      \* adjusted exponent of the true root (floor division)
      usc == -(E - p + 1)                      \* scale of one unit of the p-th significant digit
      u == Ulp(usc)
      rn == Norm(r)
      onGrid == r.d = <<>> \/ rn.sc <= usc
      below == DCmp(PowK(r, k), x) <= 0        \* r^k <= x
      f == IF below THEN r ELSE DSub(r, u)
      fk == PowK(f, k)
      exact == DCmp(fk, x) = 0
      bracket == f.s >= 0 /\ DCmp(fk, x) <= 0 /\ DCmp(x, PowK(DAdd(f, u), k)) < 0
      \* position of the true root relative to the midpoint f + u/2 : compare (2f+u)^k with 2^k x
      mid == DCmp(PowK(DAdd(DAdd(f, f), u), k), DMul(DOfInt(IF k = 2 THEN 4 ELSE 8), x))
      fOdd == LET q == Rescale(f, MaxI(usc, f.sc)) IN At(q.d, 1 + (q.sc - usc)) % 2 = 1   \* parity of f in units of u
      away == IF exact THEN FALSE
              ELSE CASE m = "Up" -> TRUE [] m = "Down" -> FALSE
                     [] m = "Ceiling" -> ~neg [] m = "Floor" -> neg
                     [] OTHER -> IF mid < 0 THEN TRUE ELSE IF mid > 0 THEN FALSE
                                 ELSE CASE m = "HalfUp" -> TRUE [] m = "HalfDown" -> FALSE [] OTHER -> fOdd
  IN IF ~onGrid THEN Bad("more-digits-than-the-precision")
     ELSE IF ~bracket THEN Bad("not-a-neighbour-of-the-true-root")
     ELSE Chk(below = ~away \/ (exact /\ below), "wrong-neighbour-for-the-mode")
\* sqrt entry points.  kind: "some" = Option result (negative => None), "abs" = root of |x|, "copysign" = root carrying the sign of x
SqrtOK(kind, x, p, m, r) ==
  IF kind = "some" /\ x.s < 0 THEN Chk(IsNone(r), "negative-must-be-none")
  ELSE IF ~IsD(r) THEN Bad("outcome-kind")
  ELSE LET y == DecOf(r.d) IN
       IF x.s = 0 THEN Chk(y.d = <<>>, "sqrt-of-zero")
       ELSE IF y.s # (IF kind = "copysign" THEN x.s ELSE 1) THEN Bad("sign")
       ELSE RootRoundedOK(DAbs(x), 2, p, m, FALSE, DAbs(y))
CbrtOK(x, p, m, r) ==
  IF ~IsD(r) THEN Bad("outcome-kind")
  ELSE LET y == DecOf(r.d) IN
       IF x.s = 0 THEN Chk(y.d = <<>>, "cbrt-of-zero")
       ELSE IF y.s # x.s THEN Bad("sign")
       ELSE RootRoundedOK(DAbs(x), 3, p, m, x.s < 0, DAbs(y))

\* ---------------------------------------------------------------- C12: reciprocal
\* adjusted exponent of 1/x
AdjInv(x) == IF Norm(x).d = One THEN -Adj(x) ELSE -Adj(x) - 1
\* does 1/x have at most p significant digits?  <=> x.d divides 10^K, K = p - 1 - AdjInv(x) + x.sc
InvTerminates(x, p) ==
  LET K == p - 1 - AdjInv(x) + x.sc IN
  K >= 0 /\ Len(x.d) <= K + 1 /\ NMod(Pow10(K), x.d) = <<>>
\* value-level core: y is acceptable as the p-digit reciprocal of x
InverseValOK(x, p, y) ==
  LET xy == DMul(x, y)
      err == DAbs(DSub(xy, DOne))                          \* |x*y - 1|
      u == Ulp(-(AdjInv(x) - p + 1))
  IN IF y.s # x.s THEN Bad("sign")
     ELSE IF err.d = <<>> THEN OK                          \* exactly 1/x
     ELSE IF DCmp(err, DMul(DAbs(x), u)) >= 0 THEN Bad("one-unit-or-more-off")
     ELSE Chk(~InvTerminates(x, p), "terminating-reciprocal-not-exact")
InverseOK(x, p, m, r) ==
  IF IsTimeout(r) THEN Bad("does-not-terminate")
  ELSE IF ~IsD(r) THEN Bad("outcome-kind")
  ELSE InverseValOK(x, p, DecOf(r.d))
\* mirror law: inverse(-x) under the mirrored mode is -inverse(x): one history entry per (|x|, p, mode on the magnitude)
InvKey(x, p, m) == <<Norm(DAbs(x)), p, IF x.s < 0 THEN Mirror(m) ELSE m>>
InvAgreeOK(hs, x, p, m, r) ==
  LET k == DivLookup(hs, InvKey(x, p, m)) IN
  IF k = 0 \/ ~IsD(r) THEN OK ELSE Chk(ValEq(hs[k][2], DAbs(DecOf(r.d))), "negation-does-not-commute-under-the-mirrored-mode")
InvRemember(hs, x, p, m, r) ==
  IF ~IsD(r) \/ DivLookup(hs, InvKey(x, p, m)) # 0 THEN hs ELSE Append(hs, <<InvKey(x, p, m), DAbs(DecOf(r.d))>>)

\* ---------------------------------------------------------------- C13: exp
\* value-level core
ExpValOK(x, P, y) ==
  IF x.d = <<>> THEN Chk(ValEq(y, DOne), "exp-of-zero-is-one")
  ELSE IF y.s # 1 THEN Bad("not-strictly-positive")
  ELSE Chk(ExpWithinOneUlp(x, P, y), "more-than-one-ulp-off")
ExpOK(x, P, r) ==
  IF IsTimeout(r) THEN Bad("does-not-terminate")
  ELSE IF ~IsD(r) THEN Bad("outcome-kind")
  ELSE ExpValOK(x, P, DecOf(r.d))
\* C20: exp delivers the configured number of significant digits (exp(0) = 1 apart)
ExpDigitsOK(x, P, r) == IF ~IsD(r) \/ x.d = <<>> THEN OK ELSE Chk(Len(DecOf(r.d).d) = P, "not-the-configured-number-of-digits")

\* ---------------------------------------------------------------- C14: binary floats
\* float -> decimal: exactly the binary value; NaN and infinities are errors
FromFloatOK(bits, w, r) ==
  IF ~IsFiniteF(bits, w) THEN Chk(IsErr(r) \/ IsNone(r), "nan-or-infinity-must-be-an-error")
  ELSE ValIs(r, FloatValue(bits, w))
\* decimal -> f64
ToFloatOK(x, r) ==
  IF "bits" \notin DOMAIN r THEN Bad("outcome-kind") ELSE Chk(ToF64OK(x, ZOf(r.bits).m), "to_f64")
ToFloatWOK(x, r) ==          \* x a wide decimal
  IF "bits" \notin DOMAIN r THEN Bad("outcome-kind") ELSE Chk(WToF64OK(x, ZOf(r.bits).m), "to_f64")
\* float -> decimal -> f64 returns the identical float (-0.0 comes back as 0.0; a binary32 as the same value)
FloatRoundTripOK(bits, w, r) ==
  IF ~IsFiniteF(bits, w) THEN Chk(IsErr(r) \/ IsNone(r), "nan-or-infinity-must-be-an-error")
  ELSE IF "bits" \notin DOMAIN r THEN Bad("outcome-kind")
  ELSE LET out == ZOf(r.bits).m
           f == Fields(bits, w)
           isZero == f[2] = 0 /\ f[3] = <<>>
       IN IF isZero THEN Chk(out = <<>>, "zero-round-trip")
          ELSE IF w = 64 \/ "out32" \in DOMAIN r THEN Chk(out = bits, "round-trip-not-identical")
          ELSE \* a binary32 read back as binary64: the same value
               IF f[2] # 0                                      \* normal binary32: re-biased exponent, mantissa shifted by 29 bits
               THEN Chk(Fields(out, 64) = <<f[1], f[2] - 127 + 1023, NMul(f[3], P2(29))>>, "round-trip-not-identical")
               ELSE Chk(IsFiniteF(out, 64) /\ ValEq(FloatValue(out, 64), FloatValue(bits, 32)), "round-trip-not-identical")

\* ---------------------------------------------------------------- C15: integer conversions
TruncToInt(x) == ZMk(x.s, IF x.sc <= 0 THEN Shl(x.d, -x.sc) ELSE Shr(x.d, x.sc))
ToIntOK(ty, x, r) ==
  LET t == TruncToInt(x)
      fits == IF ty = "bigint" THEN TRUE
              ELSE IF ty \in {"u8", "u16", "u32", "u64", "u128"} /\ x.s < 0 THEN FALSE      \* a negative decimal never converts to an unsigned type
              ELSE ZLe(TypeMin(ty), t) /\ ZLe(t, TypeMax(ty))
  IN IF fits THEN BigIs(r, t) ELSE Chk(IsNone(r), "out-of-range-must-be-none")
IsIntegerOK(x, r) == BoolIs(r, x.sc <= 0 \/ LowAllZero(x.d, x.sc))
FromIntOK(v, r) == RepIs(r, Mk(v.s, v.m, 0))

\* ---------------------------------------------------------------- C17: serde
JsonNumPrefix == <<123, 34, 118, 34, 58>>          \* {"v":
JsonNull == <<110, 117, 108, 108>>
AbsZ(z) == ZMk(z.s * z.s, z.m)
OverSerdeLimit(pv, c) == c.serdeLimit > 0 /\ ZLt(ZOfInt(c.serdeLimit), AbsZ(pv.z))
IsBack(b, pv) == IsD(b) /\ WOf(b.d) = pv
\* serialize x, deserialize the document again
SerdeRoundTripOK(form, a, r, c) ==
  IF "ser_err" \in DOMAIN r THEN Bad("serialization-failed")
  ELSE IF "doc" \notin DOMAIN r \/ "back" \notin DOMAIN r THEN Bad("outcome-kind")
  ELSE LET adapter == form \in {"json_num", "json_num_option"}
           doc == r.doc
           shapeOK == IF adapter
                      THEN Len(doc) > 6 /\ SubSeq(doc, 1, 5) = JsonNumPrefix /\ doc[Len(doc)] = 125
                      ELSE IsPlainJsonString(doc)
           num == IF adapter THEN SubSeq(doc, 6, Len(doc) - 1) ELSE Unquote(doc)
       IN IF ~shapeOK THEN Bad("document-shape")
          ELSE IF ~IsNumeral(num) \/ (adapter /\ ~IsJsonNumber(num)) THEN Bad("not-a-number-document")
          \* the string form preserves digits and scale wherever Display does (identical, or the written-out zeros of a small
          \* negative scale); the JSON-number adapters only promise an equal decimal.  How Display chooses its notation is C04's business.
          ELSE IF ~(IF adapter THEN WValEq(ParseValue(num), a)
                    ELSE ParseValue(num) = a \/ (a.z.s < 0 /\ ZSmall(a.z) /\ ParseValue(num) = Padded(a)))
               THEN Bad("serialized-text-does-not-denote-the-decimal")
          ELSE IF ~FmtRelOK("display", a, num, c) THEN Info("serialized-text-is-not-the-display-text")
          ELSE LET pv == ParseValue(num) IN
               IF adapter /\ OverSerdeLimit(pv, c) THEN Chk(IsErr(r.back), "scale-limit-not-enforced")
               ELSE Chk(IsBack(r.back, pv) /\ WValEq(pv, a), "does-not-round-trip")
SerdeNoneOK(r) ==
  IF "doc" \notin DOMAIN r THEN Bad("outcome-kind")
  ELSE Chk(r.doc = JsonNumPrefix \o JsonNull \o <<125>> /\ IsNone(r.back), "null-round-trip")
\* deserialize a JSON document: numbers and numeric strings digit for digit, everything else an error value
DeJsonOK(form, rawdoc, r, c) ==
  LET adapter == form \in {"json_num", "json_num_option"}
      doc == TrimWs(rawdoc) IN
  IF IsJsonNumber(doc)
  THEN IF ~IsNumeral(doc) THEN Chk(IsErr(r), "must-be-error")
       ELSE IF adapter /\ OverSerdeLimit(ParseValue(doc), c) THEN Chk(IsErr(r), "scale-limit-not-enforced")
       ELSE Chk(IsBack(r, ParseValue(doc)), "number-not-read-digit-for-digit")
  ELSE IF IsPlainJsonString(doc) /\ form # "json_num_option"
  THEN LET inner == Unquote(doc) IN
       IF ~IsNumeral(inner) THEN Chk(IsErr(r), "must-be-error")
       ELSE IF adapter /\ OverSerdeLimit(ParseValue(inner), c) THEN Chk(IsErr(r), "scale-limit-not-enforced")
       ELSE Chk(IsBack(r, ParseValue(inner)), "numeric-string-not-read-digit-for-digit")
  ELSE IF doc = JsonNull /\ form = "json_num_option" THEN Chk(IsNone(r), "null-is-none")
  ELSE Chk(IsErr(r), "must-be-error")
=============================================================================
