----------------------------- MODULE MC_Round -----------------------------
(***************************************************************************)
(* Small-scope exhaustive model of rounding (C06, C07, and the numeric     *)
(* side of C16): every decimal with |unscaled| <= K at scales SCALES,      *)
(* every target scale within PAD of either end of its digits, 7 modes.     *)
(*  - the mechanism RoundToScale satisfies the declarative IsRoundedTo,    *)
(*    and is the only neighbour that does (the property is functional);    *)
(*  - truncation = Down; precision rounding = scale rounding; symmetry;    *)
(*  - the digit-pair primitive agrees with its value-level meaning.        *)
(* Level-1 states (one per decimal) are printed as behaviours for the      *)
(* harness: it executes the whole family of rounding calls on each.        *)
(***************************************************************************)
EXTENDS Rounding, TLC, Json
CONSTANTS K, PAD, PRINT, PRINTK
SCALES == -3..8

Dig(n) == NatOf(n)
VARIABLES x, t, mode, ph
vars == <<x, t, mode, ph>>

Init == ph = 0 /\ x = DZero /\ t = 0 /\ mode = "Up"
TLo(y) == y.sc - Len(y.d) - PAD
THi(y) == y.sc + PAD
PickX == /\ ph = 0
         /\ \E n \in 0..K, sg \in {-1, 1}, sc \in SCALES :
              /\ (n = 0 => sg = 1)
              /\ x' = Mk(sg, Dig(n), sc)
         /\ ph' = 1 /\ UNCHANGED <<t, mode>>
PickT == /\ ph = 1
         /\ \E tt \in TLo(x)..THi(x), mm \in Modes : t' = tt /\ mode' = mm
         /\ ph' = 2 /\ UNCHANGED x
Next == PickX \/ PickT

R == RoundToScale(x, t, mode)
\* mechanism satisfies declaration
MsatD == ph = 2 => IsRoundedTo(x, t, mode, R)
\* the declaration is functional: of the two neighbours only the mechanism's answer satisfies it
Unique == ph = 2 /\ t < x.sc =>
   LET lo == Shr(x.d, x.sc - t)  hi == NAdd(lo, One)
   IN \A m \in {lo, hi} : IsRoundedTo(x, t, mode, Mk(x.s, m, t)) => Mk(x.s, m, t) = R
\* general laws
Laws == ph = 2 =>
   /\ R.sc = t
   /\ (t >= x.sc => ValEq(R, x))                                      \* extension is exact
   /\ RoundToScale(DNeg(x), t, Mirror(mode)) = DNeg(R)                 \* sign symmetry under mirrored mode
   /\ (mode = "Down" => R = Mk(x.s, Shr(x.d, x.sc - t), t) \/ t >= x.sc)   \* truncation
   /\ DLe(DAbs(RoundToScale(x, t, "Down")), DAbs(x)) /\ DLe(DAbs(x), DAbs(RoundToScale(x, t, "Up")))
   /\ DLe(RoundToScale(x, t, "Floor"), x) /\ DLe(x, RoundToScale(x, t, "Ceiling"))
   /\ RoundToScale(R, t, mode) = R                                     \* idempotent
\* rounding to a precision is rounding to the scale that leaves p digits
PrecLaw == ph = 2 /\ x.s # 0 =>
   LET p == Len(x.d) - (x.sc - t) IN
   p >= 1 => /\ RoundToPrec(x, p, mode) = R
             /\ Len(R.d) \in {p, p + 1}
             /\ (Len(R.d) = p + 1 => R.d = Pow10(p))                    \* only an all-nines carry adds a digit
\* digit-pair primitive (all 4200 arguments, checked once in the initial state)
PairLaw == ph = 0 =>
   \A m \in Modes, neg \in BOOLEAN, l \in 0..9, r \in 0..9, tz \in BOOLEAN :
      LET v == RoundPair(m, neg, l, r, tz)
          \* value-level meaning: round the number l.r(+epsilon if ~tz) to an integer
          xx == Mk(IF neg THEN -1 ELSE 1, IF tz THEN NatOf(l * 10 + r) ELSE NatOf(l * 100 + r * 10 + 1), IF tz THEN 1 ELSE 2)
      IN (l = 0 /\ r = 0 /\ tz) \/ RoundToScale(xx, 0, m).d = NatOf(v)

\* behaviours for the harness: one line per decimal, with the ranges of targets / precisions it will run
Wire(y) == [s |-> y.s, l |-> IF y.d = <<>> THEN <<>> ELSE <<ToInt(y.d)>>, e |-> y.sc]
Emit == (PRINT /\ ph = 1 /\ ToInt(x.d) <= PRINTK) =>
   PrintT(<<"RUN", ToJson([gen |-> "round_family", a |-> Wire(x), tlo |-> TLo(x), thi |-> THi(x),
                            phi |-> Digits(x) + 5])>>)
=============================================================================
