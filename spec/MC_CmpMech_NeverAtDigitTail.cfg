SPECIFICATION Spec
CHECK_DEADLOCK FALSE
INVARIANT NeverAtDigitTail
CONSTANTS
  K = 120
  W1 = 8
  W2 = 32
  Variant = "as-written"
