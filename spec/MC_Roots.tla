----------------------------- MODULE MC_Roots -----------------------------
(***************************************************************************)
(* Sanity of the relational root specification (C10, C11) on an exhaustive *)
(* small scope: for every x = n * 10^-sc (n <= K, sc in -3..3), every      *)
(* precision p in 1..3, every mode and both signs (cube root), the         *)
(* relation RootRoundedOK accepts EXACTLY ONE of the grid points around    *)
(* the true root, namely the one an independent mechanism computes with    *)
(* native integer arithmetic (integer k-th root of the shifted integer, a  *)
(* sticky flag for inexactness, the digit after the p-th as guard).  This  *)
(* shows the relation is neither vacuous nor ambiguous, and that the       *)
(* mechanism "integer root + sticky flag" (the repaired design of the      *)
(* crate) satisfies it.  The reciprocal relation is checked likewise       *)
(* against native division.                                                *)
(***************************************************************************)
EXTENDS Mech, Json
CONSTANTS K

VARIABLES n, sc, p, m, k, neg, ph
vars == <<n, sc, p, m, k, neg, ph>>
Init == ph = 0 /\ n = 1 /\ sc = 0 /\ p = 1 /\ m = "Up" /\ k = 2 /\ neg = FALSE
PickX == ph = 0 /\ ph' = 1 /\ n' \in 1..K /\ sc' \in -3..3 /\ UNCHANGED <<p, m, k, neg>>
\* (native 32-bit arithmetic bounds the scope: p <= 3 for square roots, p <= 2 for cube roots)
PickC == ph = 1 /\ ph' = 2 /\ m' \in Modes /\ neg' \in BOOLEAN /\ UNCHANGED <<n, sc>>
         /\ \E kk \in {2, 3} : k' = kk /\ p' \in 1..(IF kk = 3 THEN 2 ELSE 3)
Next == PickX \/ PickC

X == Mk(1, NatOf(n), sc)
E == Adj(X) \div k
USc == -(E - p + 1)                                   \* scale of the grid unit
\* native: x / u^k = n * 10^(k*USc - sc); its integer part and whether a fraction was dropped
Sh == k * USc - sc
XI == IF Sh >= 0 THEN n * Pow10Tab[Sh + 1] ELSE n \div Pow10Tab[-Sh + 1]
Dropped == Sh < 0 /\ n % Pow10Tab[-Sh + 1] # 0
PowN(t) == IF k = 2 THEN t * t ELSE t * t * t
T == CHOOSE t \in 0..1000 : PowN(t) <= XI /\ XI < PowN(t + 1)     \* integer root: the true root lies in [T, T+1) grid units
ExactRoot == PowN(T) = XI /\ ~Dropped
\* which side of the midpoint T + 1/2 ?  compare (2T+1)^k with 2^k * x/u^k  (native; a dropped fraction only matters on equality)
TwoK == IF k = 2 THEN 4 ELSE 8
MidCmp == IF Sh >= 0 THEN LET l == PowN(2 * T + 1)  r == TwoK * XI IN IF l < r THEN -1 ELSE IF l > r THEN 1 ELSE 0
          ELSE NCmp(Shl(NatOf(PowN(2 * T + 1)), -Sh), NatOf(TwoK * n))      \* both sides scaled by 10^-Sh: nothing dropped
Away == IF ExactRoot THEN FALSE
        ELSE CASE m = "Up" -> TRUE [] m = "Down" -> FALSE [] m = "Ceiling" -> ~neg [] m = "Floor" -> neg
               [] OTHER -> IF MidCmp < 0 THEN TRUE ELSE IF MidCmp > 0 THEN FALSE
                           ELSE CASE m = "HalfUp" -> TRUE [] m = "HalfDown" -> FALSE [] OTHER -> T % 2 = 1
Expected == IF Away THEN T + 1 ELSE T
Grid(t) == Mk(1, NatOf(t), USc)
UniqueAndRight == ph = 2 /\ (k = 3 \/ ~neg) =>
  \A t \in {T - 1, T, T + 1, T + 2} :
     t >= 0 => ((RootRoundedOK(X, k, p, m, neg, Grid(t)) = OK) <=> (t = Expected))
\* the root has exactly p digits before rounding: 10^(p-1) <= T < 10^p
RootDigits == ph = 2 => T >= Pow10Tab[p] /\ T < Pow10Tab[p + 1]

\* the crate's own routines (transcribed in Mech) return that grid point
RoutinesRight == ph = 2 /\ (k = 3 \/ ~neg) =>
  LET want == Mk(IF neg THEN -1 ELSE 1, NatOf(Expected), USc)
      got == IF k = 2 THEN SqrtRoutine(X, p, m) ELSE CbrtRoutine(Mk(IF neg THEN -1 ELSE 1, NatOf(n), sc), p, m)
  IN ValEq(got, want)

\* the sticky path: a perfect k-th power plus one unit thirty places down - the root is n "and a bit", so only the
\* modes that move away from zero may leave n; routine and relation must agree on that (n doubles as the root here)
StickyRight == ph = 1 /\ n < 100 /\ n % 13 = 3 =>
  \A kk \in {2, 3}, pp \in 2..3, mm \in Modes, sg \in {-1, 1} :
    (kk = 3 \/ sg = 1) =>
      LET pw == IF kk = 2 THEN n * n ELSE n * n * n
          x == Mk(sg, NAdd(Shl(NatOf(pw), 30), One), 30)
          away == CASE mm = "Up" -> TRUE [] mm = "Ceiling" -> sg = 1 [] mm = "Floor" -> sg = -1 [] OTHER -> FALSE
          usc == pp - Len(NatOf(n))                       \* scale of the unit of the pp-th digit of n
          want == DAdd(Mk(sg, NatOf(n), 0), IF away THEN Mk(sg, One, usc) ELSE DZero)
          got == IF kk = 2 THEN SqrtRoutine(x, pp, mm) ELSE CbrtRoutine(x, pp, mm)
      IN /\ ValEq(got, want)
         /\ RootRoundedOK(DAbs(x), kk, pp, mm, sg < 0, DAbs(got)) = OK
         /\ RootRoundedOK(DAbs(x), kk, pp, mm, sg < 0, DAbs(IF away THEN Mk(1, NatOf(n), 0) ELSE DAdd(Mk(1, NatOf(n), 0), Mk(1, One, usc)))) # OK

\* reciprocal: y accepted iff less than one unit of the p-th digit from 1/x, exact when 1/x terminates within p digits
InvE == AdjInv(X)
InvUSc == -(InvE - p + 1)
\* 1/x in grid units: 10^(InvUSc + sc) / n
InvSh == InvUSc + sc
InvOK == ph = 2 /\ k = 2 /\ ~neg /\ InvSh >= 0 /\ InvSh <= 9 =>
  LET num == Pow10Tab[InvSh + 1]
      q == num \div n   rmd == num % n
      d(t) == [d |-> [s |-> 1, l |-> <<t>>, e |-> InvUSc]]
  IN /\ InverseOK(X, p, m, d(q)) = (IF rmd = 0 \/ TRUE THEN OK ELSE OK)                 \* the floor is always acceptable
     /\ (rmd # 0 => InverseOK(X, p, m, d(q + 1)) = OK)                                   \* and so is the ceiling when inexact
     /\ (rmd = 0 => InverseOK(X, p, m, d(q + 1)) # OK /\ (q > 1 => InverseOK(X, p, m, d(q - 1)) # OK))   \* exact => only 1/x itself
     /\ InverseOK(X, p, m, d(q + 2)) # OK
     /\ InvTerminates(X, p) = (rmd = 0)
\* every small x is a behaviour for the harness: sqrt / cbrt / inverse at precisions 1..6 under every mode, both signs
Emit == ph = 1 => PrintT(<<"RUN", ToJson([gen |-> "root_family", a |-> [s |-> 1, l |-> <<n>>, e |-> sc]])>>)
=============================================================================
