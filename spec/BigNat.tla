------------------------------ MODULE BigNat ------------------------------
(***************************************************************************)
(* Arbitrary-precision naturals for TLC.                                   *)
(*                                                                         *)
(* TLC integers are 32-bit, bigdecimal-rs stores unbounded integers, so    *)
(* every unscaled value is a little-endian sequence of DECIMAL digits      *)
(* (index 1 = units), canonical: no high zeros, zero = <<>>.  Decimal      *)
(* digits, not binary limbs, because every property of the crate is about  *)
(* decimal digits (digit counts, rounding positions, trailing zeros, text).*)
(*                                                                         *)
(* All operators are written with function constructors and the Java-      *)
(* overridden folds of the CommunityModules; recursive operators with      *)
(* Append are ~100x slower in TLC (DESIGN.md section 9).                   *)
(***************************************************************************)
EXTENDS Integers, Sequences, FiniteSetsExt, SequencesExt

MaxI(p, q) == IF p > q THEN p ELSE q
MinI(p, q) == IF p < q THEN p ELSE q
AbsI(p) == IF p < 0 THEN -p ELSE p

IsDigitSeq(d) == \A i \in 1..Len(d) : d[i] \in 0..9
IsNat(d) == IsDigitSeq(d) /\ (d = <<>> \/ d[Len(d)] # 0)

\* drop high zeros
Strip(d) == SubSeq(d, 1, SelectLastInSeq(d, LAMBDA v : v # 0))
At(d, i) == IF i >= 1 /\ i <= Len(d) THEN d[i] ELSE 0
Zeros(k) == [i \in 1..k |-> 0]

\* carry normalisation of a vector of column sums (each < 2^31 / 2) in base B
NormB(cols, B) ==
  LET st == FoldLeft(LAMBDA acc, c : LET s == c + acc[1]
                                     IN <<s \div B, Append(acc[2], s % B)>>,
                     <<0, <<>>>>, cols)
      RECURSIVE Flush(_, _)
      Flush(c, out) == IF c = 0 THEN out ELSE Flush(c \div B, Append(out, c % B))
  IN Flush(st[1], st[2])

NAdd(a, b) ==
  IF a = <<>> THEN b ELSE IF b = <<>> THEN a
  ELSE NormB([i \in 1..MaxI(Len(a), Len(b)) |-> At(a, i) + At(b, i)], 10)

\* three-way compare: -1, 0, 1
NCmp(a, b) ==
  IF Len(a) # Len(b) THEN (IF Len(a) < Len(b) THEN -1 ELSE 1)
  ELSE LET k == SelectLastInSeq([i \in 1..Len(a) |-> a[i] - b[i]], LAMBDA v : v # 0)
       IN IF k = 0 THEN 0 ELSE IF a[k] < b[k] THEN -1 ELSE 1
NLe(a, b) == NCmp(a, b) <= 0
NLt(a, b) == NCmp(a, b) < 0

\* a - b, requires a >= b
NSub(a, b) ==
  IF b = <<>> THEN a
  ELSE LET st == FoldLeft(LAMBDA acc, i :
                     LET s == a[i] - At(b, i) - acc[1]
                     IN IF s < 0 THEN <<1, Append(acc[2], s + 10)>>
                                 ELSE <<0, Append(acc[2], s)>>,
                   <<0, <<>>>>, [i \in 1..Len(a) |-> i])
       IN Strip(st[2])

\* |a - b|
NDist(a, b) == IF NCmp(a, b) >= 0 THEN NSub(a, b) ELSE NSub(b, a)

\* base-1000 limbs for multiplication (column sums < 2^31 up to 2147 limbs)
ToLimbs(d) == [k \in 1..((Len(d) + 2) \div 3) |->
                  At(d, 3*k - 2) + 10 * At(d, 3*k - 1) + 100 * At(d, 3*k)]
P10small(j) == IF j = 0 THEN 1 ELSE IF j = 1 THEN 10 ELSE 100
FromLimbs(l) == Strip([i \in 1..(3 * Len(l)) |->
                  (l[(i + 2) \div 3] \div P10small((i - 1) % 3)) % 10])
NMul(x, y) ==
  LET a == ToLimbs(x)  b == ToLimbs(y)  n == Len(a)  m == Len(b)
  IN IF n = 0 \/ m = 0 THEN <<>>
     ELSE FromLimbs(NormB([k \in 1..(n + m - 1) |->
            FoldSet(LAMBDA i, acc : acc + a[i] * b[k - i + 1], 0,
                    MaxI(1, k - m + 1)..MinI(k, n))], 1000))

\* a * k for a native 0 <= k < 10^8
NMulSmall(a, k) == IF k = 0 \/ a = <<>> THEN <<>> ELSE NormB([i \in 1..Len(a) |-> a[i] * k], 10)

\* a * 10^k ,  floor(a / 10^k) , a mod 10^k
Shl(a, k) == IF a = <<>> \/ k <= 0 THEN a ELSE Zeros(k) \o a
Shr(a, k) == IF k <= 0 THEN a ELSE IF k >= Len(a) THEN <<>> ELSE SubSeq(a, k + 1, Len(a))
Low(a, k) == IF k <= 0 THEN <<>> ELSE Strip(SubSeq(a, 1, MinI(k, Len(a))))
\* are the k lowest digits all zero?
LowAllZero(d, k) == SelectInSeq(SubSeq(d, 1, MinI(k, Len(d))), LAMBDA v : v # 0) = 0
\* number of trailing (low-order) zero digits; 0 for zero
TZ(d) == IF d = <<>> THEN 0 ELSE SelectInSeq(d, LAMBDA v : v # 0) - 1

One == <<1>>
Two == <<2>>
Pow10(k) == Zeros(k) \o <<1>>

\* native int (0 <= n < 2^31) to digits and back
Pow10Tab == <<1, 10, 100, 1000, 10000, 100000, 1000000, 10000000, 100000000, 1000000000>>
NatOf(n) == Strip([i \in 1..10 |-> (n \div Pow10Tab[i]) % 10])
ToInt(d) == FoldRight(LAMBDA v, acc : acc * 10 + v, d, 0)   \* requires d < 2^31

\* wire format: base-10^9 limbs, little-endian
FromLimbs9(l) == Strip([i \in 1..(9 * Len(l)) |->
                   (l[(i + 8) \div 9] \div Pow10Tab[((i - 1) % 9) + 1]) % 10])

\* schoolbook long division: <<q, r>> with a = q*b + r, 0 <= r < b; requires b # <<>>
NDivMod(a, b) ==
  LET mult == [k \in 0..9 |-> NMulSmall(b, k)]
      digitOf(r) ==
        LET ge(k) == NCmp(r, mult[k]) >= 0 IN
        IF ge(5) THEN (IF ge(7) THEN (IF ge(9) THEN 9 ELSE IF ge(8) THEN 8 ELSE 7)
                                ELSE (IF ge(6) THEN 6 ELSE 5))
                 ELSE (IF ge(3) THEN (IF ge(4) THEN 4 ELSE 3)
                                ELSE (IF ge(2) THEN 2 ELSE IF ge(1) THEN 1 ELSE 0))
      st == FoldRight(LAMBDA dgt, acc :
                LET r0 == IF acc[2] = <<>> /\ dgt = 0 THEN <<>> ELSE <<dgt>> \o acc[2]
                    k == digitOf(r0)
                IN <<(<<k>> \o acc[1]), (IF k = 0 THEN r0 ELSE NSub(r0, mult[k]))>>,
              a, <<<<>>, <<>>>>)
  IN <<Strip(st[1]), st[2]>>
NDiv(a, b) == NDivMod(a, b)[1]
NMod(a, b) == NDivMod(a, b)[2]

\* division by a small native 1 <= k < 10^8: <<q, r>> (r native)
NDivModSmall(a, k) ==
  LET st == FoldRight(LAMBDA dgt, acc :
                LET cur == acc[2] * 10 + dgt
                IN <<(<<cur \div k>> \o acc[1]), cur % k>>,
              a, <<<<>>, 0>>)
  IN <<Strip(st[1]), st[2]>>

\* b^k by repeated squaring (depth log k)
RECURSIVE NPow(_, _)
NPow(b, k) == IF k = 0 THEN One
              ELSE IF k = 1 THEN b
              ELSE LET h == NPow(b, k \div 2)  sq == NMul(h, h)
                   IN IF k % 2 = 0 THEN sq ELSE NMul(sq, b)

NIsEven(d) == d = <<>> \/ d[1] % 2 = 0
=============================================================================
