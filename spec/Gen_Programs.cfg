SPECIFICATION Spec
CHECK_DEADLOCK FALSE
INVARIANT Emit
CONSTANTS
  DEPTH = 40
  MAXDIG = 400
