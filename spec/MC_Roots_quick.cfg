INIT Init
NEXT Next
CHECK_DEADLOCK FALSE
INVARIANT UniqueAndRight
INVARIANT RootDigits
INVARIANT InvOK
INVARIANT Emit
CONSTANTS
  K = 40
