INIT Init
NEXT Next
CHECK_DEADLOCK FALSE
INVARIANT UniqueAndRight
INVARIANT RootDigits
INVARIANT RoutinesRight
INVARIANT StickyRight
INVARIANT InvOK
INVARIANT Emit
CONSTANTS
  K = 40
