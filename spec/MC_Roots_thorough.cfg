INIT Init
NEXT Next
CHECK_DEADLOCK FALSE
INVARIANT UniqueAndRight
INVARIANT RootDigits
INVARIANT InvOK
CONSTANTS
  K = 300
