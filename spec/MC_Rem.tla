------------------------------ MODULE MC_Rem ------------------------------
(***************************************************************************)
(* Small-scope exhaustive model of the remainder (C09) and of the quotient *)
(* relation (C08): for all small pairs (a, b # 0)                          *)
(*  - the remainder r = RemNaive(a, b) satisfies the truncated-division    *)
(*    identity a = b*q + r for an INTEGER q with |q*b| <= |a|, |r| < |b|,  *)
(*    sign(r) in {0, sign(a)}, and is independent of the sign of b;        *)
(*  - the fast formulation used for 10^4-digit scale gaps agrees with it   *)
(*    (gaps up to GAPMAX, crossing the square-and-multiply threshold);     *)
(*  - the division mechanism of the crate (shift the numerator, one digit  *)
(*    per iteration, final half-up step) satisfies the relational DivOK    *)
(*    used in trace validation, for precisions 1..3.                       *)
(***************************************************************************)
EXTENDS Ops, Json
CONSTANTS K, GAPMAX

VARIABLES a, b, ph
SmallSc == -2..2
Init == ph = 0 /\ a = DZero /\ b = DOne
PickA == /\ ph = 0 /\ ph' = 1 /\ UNCHANGED b
         /\ \E n \in 0..K, sg \in {-1, 1}, sc \in SmallSc : a' = Mk(sg, NatOf(n), sc)
PickB == /\ ph = 1 /\ ph' = 2 /\ UNCHANGED a
         /\ \E n \in 1..K, sg \in {-1, 1}, sc \in SmallSc \cup {GAPMAX, -GAPMAX, 61, -61} : b' = Mk(sg, NatOf(n), sc)
Next == PickA \/ PickB

R == RemNaive(a, b)
\* q = (a - r) / b must be an integer: (a - r) aligned is a multiple of b aligned
RemIdentity == ph = 2 =>
  LET sc == MaxI(a.sc, b.sc)
      A == Shl(a.d, sc - a.sc)  B == Shl(b.d, sc - b.sc)
      dm == NDivMod(A, B)
  IN /\ R = Mk(a.s, dm[2], sc)
     /\ DAdd(DMul(Mk(a.s * b.s, dm[1], 0), b), R) = Rescale(a, sc) \/ ValEq(DAdd(DMul(Mk(a.s * b.s, dm[1], 0), b), R), a)
     /\ DCmp(DAbs(R), DAbs(b)) < 0
     /\ R.s \in {0, a.s}
     /\ ValEq(RemNaive(a, DNeg(b)), R)
     /\ DCmp(DAbs(DMul(Mk(1, dm[1], 0), b)), DAbs(a)) <= 0          \* truncation toward zero
FastAgrees == ph = 2 => ValEq(RemFast(a, b), R)

\* C08: the digit-loop mechanism of impl_division, on magnitudes (signs are re-attached around it)
RECURSIVE DivLoop(_, _, _, _, _, _)
DivLoop(quot, rem10, den, scale, prec, P) ==      \* rem10 = remainder * 10
  IF rem10 = <<>> \/ prec >= P THEN <<quot, rem10, scale>>
  ELSE LET dm == NDivMod(rem10, den)
       IN DivLoop(NAdd(NMulSmall(quot, 10), dm[1]), NMulSmall(dm[2], 10), den, scale + 1, prec + 1, P)
RECURSIVE ShiftUp(_, _, _)
ShiftUp(num, den, scale) == IF NCmp(num, den) < 0 THEN ShiftUp(NMulSmall(num, 10), den, scale + 1) ELSE <<num, scale>>
DivMech(x, y, P) ==
  IF x.d = <<>> THEN DZero
  ELSE LET su == ShiftUp(x.d, y.d, x.sc - y.sc)
           dm == NDivMod(su[1], y.d)
       IN IF dm[2] = <<>> THEN Mk(x.s * y.s, dm[1], su[2])
          ELSE LET st == DivLoop(dm[1], NMulSmall(dm[2], 10), y.d, su[2], Len(dm[1]), P)
                   up == st[2] # <<>> /\ NCmp(NDiv(st[2], y.d), NatOf(5)) >= 0
               IN Mk(x.s * y.s, IF up THEN NAdd(st[1], One) ELSE st[1], st[3])
DivMechOK == ph = 2 /\ b.sc \in SmallSc =>
  \A P \in 1..3 : DivOK(a, b, P, [d |-> [s |-> DivMech(a, b, P).s, l |-> (IF DivMech(a, b, P).d = <<>> THEN <<>> ELSE <<ToInt(DivMech(a, b, P).d)>>), e |-> DivMech(a, b, P).sc]]) = OK
\* every small pair is a behaviour for the harness: all spellings of / and % on it
Wire(y) == [s |-> y.s, l |-> IF y.d = <<>> THEN <<>> ELSE <<ToInt(y.d)>>, e |-> y.sc]
Emit == (ph = 2 /\ b.sc \in SmallSc) => PrintT(<<"RUN", ToJson([gen |-> "divrem_family", a |-> Wire(a), b |-> Wire(b)])>>)
=============================================================================
