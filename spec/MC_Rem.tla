------------------------------ MODULE MC_Rem ------------------------------
(***************************************************************************)
(* Small-scope exhaustive model of the remainder (C09) and of the quotient *)
(* relation (C08): for all small pairs (a, b # 0)                          *)
(*  - the remainder r = RemNaive(a, b) satisfies the truncated-division    *)
(*    identity a = b*q + r for an INTEGER q with |q*b| <= |a|, |r| < |b|,  *)
(*    sign(r) in {0, sign(a)}, and is independent of the sign of b;        *)
(*  - the fast formulation used for 10^4-digit scale gaps agrees with it   *)
(*    (gaps up to GAPMAX, crossing the square-and-multiply threshold);     *)
(*  - the division mechanism of the crate (shift the numerator, one digit  *)
(*    per iteration, final half-up step) satisfies the relational DivOK    *)
(*    used in trace validation, for precisions 1..3.                       *)
(***************************************************************************)
EXTENDS Mech, Json
CONSTANTS K, GAPMAX

VARIABLES a, b, ph
SmallSc == -2..2
Init == ph = 0 /\ a = DZero /\ b = DOne
PickA == /\ ph = 0 /\ ph' = 1 /\ UNCHANGED b
         /\ \E n \in 0..K, sg \in {-1, 1}, sc \in SmallSc : a' = Mk(sg, NatOf(n), sc)
PickB == /\ ph = 1 /\ ph' = 2 /\ UNCHANGED a
         /\ \E n \in 1..K, sg \in {-1, 1}, sc \in SmallSc \cup {GAPMAX, -GAPMAX, 61, -61} : b' = Mk(sg, NatOf(n), sc)
Next == PickA \/ PickB

R == RemNaive(a, b)
\* q = (a - r) / b must be an integer: (a - r) aligned is a multiple of b aligned
RemIdentity == ph = 2 =>
  LET sc == MaxI(a.sc, b.sc)
      A == Shl(a.d, sc - a.sc)  B == Shl(b.d, sc - b.sc)
      dm == NDivMod(A, B)
  IN /\ R = Mk(a.s, dm[2], sc)
     /\ DAdd(DMul(Mk(a.s * b.s, dm[1], 0), b), R) = Rescale(a, sc) \/ ValEq(DAdd(DMul(Mk(a.s * b.s, dm[1], 0), b), R), a)
     /\ DCmp(DAbs(R), DAbs(b)) < 0
     /\ R.s \in {0, a.s}
     /\ ValEq(RemNaive(a, DNeg(b)), R)
     /\ DCmp(DAbs(DMul(Mk(1, dm[1], 0), b)), DAbs(a)) <= 0          \* truncation toward zero
FastAgrees == ph = 2 => ValEq(RemFast(a, b), R)

\* C08: the digit-loop mechanism of impl_division, on magnitudes (signs are re-attached around it)
DivMechOK == ph = 2 /\ b.sc \in SmallSc =>
  \A P \in 1..3 : DivOK(a, b, P, [d |-> [s |-> DivMech(a, b, P).s, l |-> (IF DivMech(a, b, P).d = <<>> THEN <<>> ELSE <<ToInt(DivMech(a, b, P).d)>>), e |-> DivMech(a, b, P).sc]]) = OK
\* every small pair is a behaviour for the harness: all spellings of / and % on it
Wire(y) == [s |-> y.s, l |-> IF y.d = <<>> THEN <<>> ELSE <<ToInt(y.d)>>, e |-> y.sc]
Emit == (ph = 2 /\ b.sc \in SmallSc) => PrintT(<<"RUN", ToJson([gen |-> "divrem_family", a |-> Wire(a), b |-> Wire(b)])>>)
=============================================================================
