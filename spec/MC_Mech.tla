------------------------------ MODULE MC_Mech ------------------------------
(***************************************************************************)
(* Mechanism-level models of four small routines every other operation of  *)
(* the crate depends on, each checked exhaustively on a bounded scope:     *)
(*  TenToThe   the three-algorithm power of ten of src/arithmetic/mod.rs   *)
(*             (u64 below 20, 19-digit chunks below 590, recursive 16th    *)
(*             powers above) yields 10^pow for every pow <= PMAX (C01,C18) *)
(*  CountDigs  digit counting from a bit-length estimate plus an upward    *)
(*             correction loop: the estimate never overshoots and the loop *)
(*             ends on the exact count, for 2^b-1, 2^b, 2^b+1, b <= BMAX   *)
(*             (C18, and through it C07, C10-C12)                          *)
(*  RoundTerm  get_rounding_term (used by with_prec and by division): 1    *)
(*             iff the leading digit is >= 5, for every n < 2^NBITS        *)
(*  LazyTZ     the lazily evaluated trailing-zero flag of InsigData (cbrt, *)
(*             precision formatting) never changes the rounded digit       *)
(***************************************************************************)
EXTENDS BigNat, Rounding, TLC
CONSTANTS PMAX, BMAX, NBITS

VARIABLES part, x
\* sixteen initial states (x = residue class): TLC generates the successors of ONE state on one thread, and the
\* heavy evaluations sit in the successors' invariants, so the arguments are spread over the classes
Init == part = "start" /\ x \in 0..15
Next == /\ part = "start"
        /\ \/ (part' = "ten" /\ x' \in {y \in 0..PMAX : y % 16 = x})
           \/ (part' = "digits" /\ x' \in {y \in 1..BMAX : y % 16 = x})
           \/ (part' = "term" /\ x' \in {y \in 1..(2 ^ NBITS - 1) : y % 16 = x})
           \/ (part' = "lazy" /\ x' \in {y \in 0..(7 * 2 * 10 * 10 * 2 - 1) : y % 16 = x})

\* ---- TenToThe
P10u64(k) == Pow10(k)                                  \* 10u64.pow(k), k < 20
RECURSIVE TimesChunk(_, _)
TimesChunk(res, n) == IF n <= 0 THEN res ELSE TimesChunk(NMul(res, P10u64(19)), n - 1)    \* `for _ in 1..count { res *= 10^19 }`
RECURSIVE TenToThe(_)
TenToThe(pow) ==
  IF pow < 20 THEN P10u64(pow)
  ELSE IF pow < 590
  THEN LET count == pow \div 19  rem == pow % 19
           res == TimesChunk(P10u64(19), count - 1)
       IN IF rem # 0 THEN NMul(res, P10u64(rem)) ELSE res
  ELSE LET q == pow \div 16  rem == pow % 16
           y == TenToThe(q)
           x2 == NMul(y, y)  x4 == NMul(x2, x2)  x8 == NMul(x4, x4)  r == NMul(x8, x8)
       IN IF rem = 0 THEN r ELSE NMul(r, P10u64(rem))
TenOK == part = "ten" => TenToThe(x) = Pow10(x)

\* ---- CountDigs: floor(bits / log2(10)); 0.30102 < log10(2) < 0.30103 brackets the f64 quotient
EstLo(bits) == (bits * 30102) \div 100000
EstHi(bits) == (bits * 30103) \div 100000
RECURSIVE Correct(_, _, _)
Correct(n, num, digits) == IF NCmp(n, num) >= 0 THEN Correct(n, Shl(num, 1), digits + 1) ELSE digits   \* while n >= num { num *= 10; digits += 1 }
CountDigs(n, bits) == Correct(n, Pow10(EstLo(bits)), EstLo(bits))
DigitsOK == part = "digits" =>
  LET p == NPow(Two, x)                                  \* 2^x has x+1 bits
      cases == << <<p, x + 1>>, <<NSub(p, One), x>>, <<NAdd(p, One), x + 1>> >>
  IN \A i \in 1..3 :
       LET n == cases[i][1]  bits == cases[i][2] IN
       /\ EstHi(bits) <= Len(n)                          \* the estimate never exceeds the true count (the loop only corrects upward)
       /\ CountDigs(n, bits) = Len(n)
       /\ (EstLo(bits) = EstHi(bits) \/ Correct(n, Pow10(EstHi(bits)), EstHi(bits)) = Len(n))

\* ---- RoundTerm (native integers)
RECURSIVE NBitsOf(_)
NBitsOf(n) == IF n = 0 THEN 0 ELSE 1 + NBitsOf(n \div 2)
RECURSIVE Lead(_)
Lead(n) == IF n < 10 THEN n ELSE Lead(n \div 10)
RECURSIVE TermLoop(_, _)
TermLoop(num, n) == IF num < n THEN 1 ELSE IF num < n * 5 THEN 0 ELSE TermLoop(num, n * 10)
RoundTerm(num) == TermLoop(num, 10 ^ ((NBitsOf(num) * 1000000) \div 3321928))
TermOK == part = "term" => RoundTerm(x) = (IF Lead(x) >= 5 THEN 1 ELSE 0)

\* ---- LazyTZ: decode x into (mode, neg, sig, insig, true trailing-zero flag)
ModeSeq == <<"Up", "Down", "Ceiling", "Floor", "HalfUp", "HalfDown", "HalfEven">>
NeedsTZ(mode, insig) == IF mode \in {"HalfUp", "HalfDown", "HalfEven"} THEN insig = 5 ELSE insig = 0
LazyOK == part = "lazy" =>
  LET tz == x % 2 = 1  insig == (x \div 2) % 10  sig == (x \div 20) % 10  neg == (x \div 200) % 2 = 1  mode == ModeSeq[(x \div 400) + 1]
      lazy == NeedsTZ(mode, insig) /\ tz
  IN RoundPair(mode, neg, sig, insig, lazy) = RoundPair(mode, neg, sig, insig, tz)
=============================================================================
