SPECIFICATION Spec
CHECK_DEADLOCK FALSE
INVARIANT Exact
INVARIANT Observations
CONSTANTS
  NREG = 2
  POOL <- PoolDef
  MAXSTEPS = 2
  MAXDIGITS = 12
