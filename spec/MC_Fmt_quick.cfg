INIT Init
NEXT Next
CHECK_DEADLOCK FALSE
INVARIANT NoPrec
INVARIANT WithPrec
INVARIANT DisplayIsJson
INVARIANT Emit
CONSTANTS
  LEN = 4
  SCLO0 = 40
  SCHI = 60
  NMAX = 7
