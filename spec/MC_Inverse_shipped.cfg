INIT Init
NEXT Next
CHECK_DEADLOCK FALSE
INVARIANT GuessInBasin
INVARIANT Quadratic
INVARIANT StaysInside
INVARIANT Terminates
INVARIANT ResultOK
CONSTANTS
  NMAX = 130
  SCALES <- ScalesFew
  PMAX = 4
  ITERMAX = 8
  Variant = "shipped"
  EMITMOD = 4
