------------------------------ MODULE MC_Exp ------------------------------
(***************************************************************************)
(* Sanity of the e^x enclosure of the specification (C13) on a grid of     *)
(* arguments: L <= U; the relative width is far below an ulp of the        *)
(* configured precision; enclosures computed with more working digits are  *)
(* nested in (intersect) the coarser ones; known leading digits of e,      *)
(* e^10 and e^0.5 lie inside; and the acceptance predicate accepts the     *)
(* correctly rounded value while rejecting a value two units away.         *)
(***************************************************************************)
EXTENDS Ops
VARIABLES i, ph
Args == << Mk(1, One, 0), Mk(1, <<5>>, 1), Mk(1, <<0, 1>>, 0), Mk(1, <<1>>, 30), Mk(1, <<7, 3>>, 0), Mk(1, <<9, 9, 9>>, 1) >>
Init == ph = 0 /\ i = 1
Next == ph = 0 /\ ph' = 1 /\ i' \in 1..Len(Args)
x == Args[i]
P == 30
S1 == FracDigitsFor(P, Halvings(x.d, x.sc))
Enc(S) == ExpEnclosure(x.d, x.sc, S)
\* e = 2.71828182845904523536028747135266249775724709369995...
EDigits == <<2,7,1,8,2,8,1,8,2,8,4,5,9,0,4,5,2,3,5,3,6,0,2,8,7,4,7,1,3,5,2,6,6,2,4,9,7,7,5,7,2,4,7,0,9,3,6,9,9,9,5>>
EValue == Mk(1, [k \in 1..Len(EDigits) |-> EDigits[Len(EDigits) + 1 - k]], Len(EDigits) - 1)
Sane == ph = 1 =>
  LET e1 == Enc(S1)  e2 == Enc(S1 + 20)
      L1 == Mk(1, e1[1], S1)  U1 == Mk(1, e1[2], S1)
      L2 == Mk(1, e2[1], S1 + 20)  U2 == Mk(1, e2[2], S1 + 20)
  IN /\ DLe(L1, U1) /\ DLe(L2, U2)
     /\ DLe(L1, U2) /\ DLe(L2, U1)                                          \* the two enclosures intersect
     /\ DLe(DMul(DSub(U1, L1), Mk(1, Pow10(P + 25), 0)), L1)                \* relative width < 10^-(P+25)
     /\ (i = 1 => DLe(L1, DAdd(EValue, Ulp(Len(EDigits) - 1))) /\ DLe(EValue, U1))   \* e itself (EValue is e truncated)
     \* the acceptance predicate: the lower end rounded to P digits is within one ulp; two ulps further is not
     /\ LET r == RoundToPrec(L1, P, "HalfEven")
            u == Ulp(-(Adj(r) - P + 1))
        IN /\ ExpWithinOneUlp(x, P, r)
           /\ ~ExpWithinOneUlp(x, P, DAdd(r, DAdd(u, DAdd(u, u))))
=============================================================================
