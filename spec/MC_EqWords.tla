---------------------------- MODULE MC_EqWords ----------------------------
(***************************************************************************)
(* Mechanism-level model of the allocation-free equality test of           *)
(* src/impl_cmp.rs (C02): compare the machine words of `a` with those of   *)
(* `b * 10^k`, carrying the high part of each wide product into the next   *)
(* word.  The word size is scaled down (words of WB values, wide           *)
(* accumulator of WB^2 values: 16 and 256 for the crate's 2^32 and 2^64)   *)
(* so that TLC can explore every operand of up to three words; the         *)
(* structure of the loop - one step per word, the carry, the two places    *)
(* where the wide arithmetic can overflow, the fallback to an allocating   *)
(* comparison - is that of the code.                                       *)
(*   CHECKED = TRUE  : the repaired design (checked_mul AND checked_add,    *)
(*                     overflow => fallback): the verdict is always right  *)
(*   CHECKED = FALSE : the design as shipped (the addition of the carry    *)
(*                     wraps): TLC exhibits operands whose word sits at    *)
(*                     floor(WB^2 / 10^k) for which the verdict is wrong.  *)
(* Also: the bit-length prefilter is sound (it only ever answers           *)
(* "a < b*10^k" when that is true).                                        *)
(***************************************************************************)
EXTENDS Integers, Sequences, TLC
CONSTANTS WB, MAXW, CHECKED

WIDE == WB * WB
Words == UNION {[1..n -> 0..(WB - 1)] : n \in 1..MAXW}
Canon(w) == w[Len(w)] # 0                                     \* no leading zero word
RECURSIVE ValOf(_, _)
ValOf(w, i) == IF i > Len(w) THEN 0 ELSE w[i] + WB * ValOf(w, i + 1)
Val(w) == ValOf(w, 1)
Pow10(k) == IF k = 1 THEN 10 ELSE 100
RECURSIVE Bits(_)
Bits(n) == IF n = 0 THEN 0 ELSE 1 + Bits(n \div 2)

VARIABLES a, b, k, i, carry, st, res
vars == <<a, b, k, i, carry, st, res>>

Init == /\ a \in {w \in Words : Canon(w)} /\ b \in {w \in Words : Canon(w)} /\ k \in {1, 2}
        /\ i = 1 /\ carry = 0 /\ st = "run" /\ res = FALSE
Done(v) == st' = "done" /\ res' = v /\ UNCHANGED <<a, b, k, i, carry>>
Fallback == st' = "fallback" /\ UNCHANGED <<a, b, k, i, carry, res>>
Both == /\ st = "run" /\ i <= Len(a) /\ i <= Len(b)
        /\ LET tmp == b[i] * Pow10(k) IN
           IF tmp >= WIDE THEN Fallback                                      \* checked_mul fails
           ELSE LET sum == tmp + carry IN
                IF CHECKED /\ sum >= WIDE THEN Fallback                      \* checked_add fails (the repair)
                ELSE LET wide == sum % WIDE                                  \* unchecked: wraps (release build)
                         trueB == wide % WB
                     IN IF a[i] # trueB THEN Done(FALSE)
                        ELSE carry' = wide \div WB /\ i' = i + 1 /\ UNCHANGED <<a, b, k, st, res>>
OnlyB == st = "run" /\ i > Len(a) /\ i <= Len(b) /\ Done(FALSE)
OnlyA == /\ st = "run" /\ i <= Len(a) /\ i > Len(b)
         /\ IF a[i] # carry % WB THEN Done(FALSE)
            ELSE carry' = 0 /\ i' = i + 1 /\ UNCHANGED <<a, b, k, st, res>>
Neither == st = "run" /\ i > Len(a) /\ i > Len(b) /\ Done(carry = 0)
Alloc == st = "fallback" /\ Done(Val(b) * Pow10(k) = Val(a))                 \* compare via allocation
Next == Both \/ OnlyB \/ OnlyA \/ Neither \/ Alloc
Spec == Init /\ [][Next]_vars

VerdictRight == st = "done" => (res = (Val(a) = Val(b) * Pow10(k)))
\* floor(k * log2(10)) for k = 1, 2
Log2Scale == IF k = 1 THEN 3 ELSE 6
Prefilter == Bits(Val(a)) < Bits(Val(b)) \/ Bits(Val(a)) < Bits(Val(b)) + Log2Scale
PrefilterSound == Prefilter => Val(a) < Val(b) * Pow10(k)
=============================================================================
