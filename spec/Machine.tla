------------------------------ MODULE Machine ------------------------------
(***************************************************************************)
(* The decimal machine: a few registers holding decimals, and one named    *)
(* action per exact operation of the crate (C19).  The REPRESENTATION of a *)
(* result is deliberately non-deterministic - the crate promises the value *)
(* of a sum or product, not its scale (`&a * &b` with a = 1.00 returns a   *)
(* normalised copy, `a * b` does not) - so model checking explores every   *)
(* way an intermediate may be represented and shows that later results,    *)
(* comparisons and hash keys never depend on it.                           *)
(*   regs  : register -> decimal (a representation)                        *)
(*   ghost : register -> the exact value, computed on normal forms only    *)
(*   steps : number of operations executed                                 *)
(* Rounding steps (to a scale, to a precision) are interleaved with the    *)
(* exact ones: their result, too, is a function of the value alone.        *)
(***************************************************************************)
EXTENDS Wide, Rounding, TLC

CONSTANTS NREG,        \* number of registers
          POOL,        \* set of decimals the registers may be loaded with
          MAXSTEPS,    \* program length
          MAXDIGITS    \* growth guard for products

VARIABLES regs, ghost, steps
vars == <<regs, ghost, steps>>
Reg == 1..NREG

\* all the representations of value v the machine may produce: as computed, normalised, or with 1..2 extra zeros
Reps(v) == LET n == Norm(v) IN {v, n, Rescale(n, n.sc + 1), Rescale(v, v.sc + 2)}

Init == /\ regs \in [Reg -> POOL]
        /\ ghost = [r \in Reg |-> Norm(regs[r])]
        /\ steps = 0

\* one exact operation: dst := f(srcs); the ghost applies f to normal forms
Store(dst, v, gv) ==
  /\ steps < MAXSTEPS
  /\ \E rep \in Reps(v) : regs' = [regs EXCEPT ![dst] = rep]
  /\ ghost' = [ghost EXCEPT ![dst] = Norm(gv)]
  /\ steps' = steps + 1
Small(a, b) == Len(a.d) + Len(b.d) <= MAXDIGITS
Add(dst, a, b) == Store(dst, DAdd(regs[a], regs[b]), DAdd(ghost[a], ghost[b]))
Sub(dst, a, b) == Store(dst, DSub(regs[a], regs[b]), DSub(ghost[a], ghost[b]))
Mul(dst, a, b) == Small(regs[a], regs[b]) /\ Store(dst, DMul(regs[a], regs[b]), DMul(ghost[a], ghost[b]))
Neg(dst, a) == Store(dst, DNeg(regs[a]), DNeg(ghost[a]))
Abs(dst, a) == Store(dst, DAbs(regs[a]), DAbs(ghost[a]))
Double(dst, a) == Store(dst, DAdd(regs[a], regs[a]), DAdd(ghost[a], ghost[a]))
\* half(x): x * 5 / 10
Half(dst, a) == Store(dst, Mk(regs[a].s, NMulSmall(regs[a].d, 5), regs[a].sc + 1), Mk(ghost[a].s, NMulSmall(ghost[a].d, 5), ghost[a].sc + 1))
Square(dst, a) == Small(regs[a], regs[a]) /\ Store(dst, DMul(regs[a], regs[a]), DMul(ghost[a], ghost[a]))
RescaleUp(dst, a) == Store(dst, Rescale(regs[a], regs[a].sc + 3), ghost[a])
Normalize(dst, a) == Store(dst, Norm(regs[a]), ghost[a])
AddInt(dst, a, k) == Store(dst, DAdd(regs[a], DOfInt(k)), DAdd(ghost[a], DOfInt(k)))
MulInt(dst, a, k) == Store(dst, DMul(regs[a], DOfInt(k)), DMul(ghost[a], DOfInt(k)))

\* rounding steps between the exact ones: the rounded value must not depend on how its operand happens to be
\* represented (2.5, 2.50 and 25e-1 round alike) - the ghost rounds the normal form, the register whatever it holds
RoundModes == {"HalfEven", "Up", "Floor", "HalfDown"}
RoundScale(dst, a, t, m) == Store(dst, RoundToScale(regs[a], t, m), RoundToScale(ghost[a], t, m))
RoundPrec(dst, a, p, m) == /\ ghost[a].d # <<>>           \* (a zero keeps its scale: its precision rounding is about representation only)
                           /\ Store(dst, RoundToPrec(regs[a], p, m), RoundToPrec(ghost[a], p, m))

Next == \E dst, a, b \in Reg :
           \/ Add(dst, a, b) \/ Sub(dst, a, b) \/ Mul(dst, a, b)
           \/ Neg(dst, a) \/ Abs(dst, a) \/ Double(dst, a) \/ Half(dst, a) \/ Square(dst, a)
           \/ RescaleUp(dst, a) \/ Normalize(dst, a)
           \/ \E k \in {-2, 0, 1, 10} : AddInt(dst, a, k) \/ MulInt(dst, a, k)
           \/ \E m \in RoundModes : (\E t \in {-1, 0, 1} : RoundScale(dst, a, t, m)) \/ (\E p \in {1, 2} : RoundPrec(dst, a, p, m))
Spec == Init /\ [][Next]_vars

\* ---- invariants: the value of every register is the exact value, whatever representations were taken
Exact == \A r \in Reg : Norm(regs[r]) = ghost[r]
\* observations taken along the way agree with the exact values
HashKey(x) == Norm(x)
Observations == \A a, b \in Reg :
   /\ DCmp(regs[a], regs[b]) = DCmp(ghost[a], ghost[b])
   /\ (ValEq(regs[a], regs[b]) <=> ghost[a] = ghost[b])
   /\ (ValEq(regs[a], regs[b]) => HashKey(regs[a]) = HashKey(regs[b]))
=============================================================================
