SPECIFICATION FairSpec
PROPERTY EventuallyDone
CHECK_DEADLOCK FALSE
INVARIANT GuessInBasin
INVARIANT Quadratic
INVARIANT StaysInside
INVARIANT Terminates
INVARIANT WorkingAccurate
INVARIANT ResultOK
INVARIANT RoutineAgrees
INVARIANT Emit
CONSTANTS
  NMAX = 3000
  SCALES <- ScalesMore
  PMAX = 6
  ITERMAX = 10
  Variant = "fixed"
  EMITMOD = 5
