SPECIFICATION FairSpec
PROPERTY EventuallyDone
CHECK_DEADLOCK FALSE
INVARIANT GuessInBasin
INVARIANT Quadratic
INVARIANT StaysInside
INVARIANT Terminates
INVARIANT WorkingAccurate
INVARIANT ResultOK
INVARIANT RoutineAgrees
INVARIANT Emit
CONSTANTS
  NMAX = 400
  SCALES <- ScalesFew
  PMAX = 4
  ITERMAX = 8
  Variant = "fixed"
  EMITMOD = 4
