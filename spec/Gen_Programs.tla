---------------------------- MODULE Gen_Programs ----------------------------
(***************************************************************************)
(* Generator of straight-line programs of exact operations (C19), run with *)
(* `tlc -simulate`: each behaviour is one program of DEPTH steps over six  *)
(* registers loaded from a pool of special operands.  Every step names its *)
(* operation, its overload form and its operands; no expected value is     *)
(* generated - the harness executes the program on the crate and the trace *)
(* specification judges every step.  The machine state carried here is a   *)
(* bound on the digit count and scale of each register, used to guard      *)
(* products against exponential growth.                                    *)
(***************************************************************************)
EXTENDS Integers, Sequences, TLC, Json, Forms
CONSTANTS DEPTH, MAXDIG, MIXED

NREG == 6
Reg == 1..NREG
\* operand pool (wire format): zero with scales, ones written 1.00, powers of ten, value-equal twins, both signs
W(s, n, e) == [s |-> s, l |-> IF n = 0 THEN <<>> ELSE <<n>>, e |-> e]
Pool == << W(0, 0, 0), W(0, 0, 7), W(0, 0, -3), W(1, 1, 0), W(1, 100, 2), W(1, 1000, 3), W(-1, 10, 1),
           W(1, 1, -2), W(1, 100, 0), W(1, 10, -1), W(1, 25, 1), W(1, 250, 2), W(-1, 25, 1), W(1, 5, 1), W(1, 2, 0),
           W(1, 999999999, 4), W(-1, 123456789, 12), W(1, 7, -9), W(1, 3, 25), W(-1, 1, 30),
           [s |-> 1, l |-> <<999999999, 999999999, 99>>, e |-> 10], [s |-> -1, l |-> <<1, 0, 0, 5>>, e |-> -4],
           W(1, 12, 0), W(1, 120, 1), W(1, 375, 3), W(-1, 8, 0) >>
PoolDig(i) == 9 * Len(Pool[i].l) + 1
PoolSc(i) == IF Pool[i].e < 0 THEN -Pool[i].e ELSE Pool[i].e

VARIABLES prog,   \* the program so far: <<loads, steps>>
          dg,     \* register -> bound on its number of digits
          sc      \* register -> bound on |scale|
vars == <<prog, dg, sc>>

Pick(S) == RandomElement(S)
Init == /\ prog = [loads |-> <<>>, steps |-> <<>>]
        /\ dg = [r \in Reg |-> 1]
        /\ sc = [r \in Reg |-> 0]
\* the first NREG steps load the registers from the pool
Load == \E i \in {Pick(1..Len(Pool))} : LET r == Len(prog.loads) + 1 IN
        /\ prog' = [prog EXCEPT !.loads = Append(@, Pool[i])]
        /\ dg' = [dg EXCEPT ![r] = PoolDig(i)] /\ sc' = [sc EXCEPT ![r] = PoolSc(i)]

MaxI(a, b) == IF a > b THEN a ELSE b
R(i) == [r |-> i]
SmallInts == {0, 1, -1, 2, -2, 10, 7, 100}
IntW(k) == W(IF k < 0 THEN -1 ELSE IF k = 0 THEN 0 ELSE 1, IF k < 0 THEN -k ELSE k, 0)
UnsignedTypes == {"u8", "u16", "u32", "u64", "u128", "ru8", "ru16", "ru32", "ru64", "ru128"}
DecKinds == {"val", "ref", "dref", "assign"}
KindsOf == FormKinds
IntFor(kind, k) == IF kind \in UnsignedTypes /\ k < 0 THEN IntW(-k) ELSE IntW(k)

\* one more step
Binary(op, forms) ==
  \* (a random pick is bound by \E over a singleton: a LET body would be re-evaluated - and re-drawn - at every use)
  \E f \in {Pick(forms)}, a \in {Pick(Reg)}, b \in {Pick(Reg)}, d \in {Pick(Reg)}, k1 \in {Pick(SmallInts)}, k2 \in {Pick(SmallInts)} :
  LET ks == KindsOf[f]
      lhsDec == ks[1] \in DecKinds   rhsDec == ks[2] \in DecKinds
      A == IF lhsDec THEN R(a) ELSE IntFor(ks[1], k1)
      B == IF rhsDec THEN R(b) ELSE IntFor(ks[2], k2)
      dst == IF ks[1] = "assign" THEN a ELSE d
      da == IF lhsDec THEN dg[a] ELSE 3   db == IF rhsDec THEN dg[b] ELSE 3
      sa == IF lhsDec THEN sc[a] ELSE 0   sb == IF rhsDec THEN sc[b] ELSE 0
      ndg == IF op = "mul" THEN da + db ELSE MaxI(da, db) + sa + sb + 1
      nsc == IF op = "mul" THEN sa + sb ELSE MaxI(sa, sb)
  IN /\ ndg <= MAXDIG /\ nsc <= MAXDIG
     /\ prog' = [prog EXCEPT !.steps = Append(@, [op |-> op, form |-> f, a |-> A, b |-> B, dst |-> dst])]
     /\ dg' = [dg EXCEPT ![dst] = ndg] /\ sc' = [sc EXCEPT ![dst] = nsc]
Unary(op, form, fd(_), fs(_)) ==
  \E a \in {Pick(Reg)}, d \in {Pick(Reg)} :
  /\ fd(dg[a]) <= MAXDIG /\ fs(sc[a]) <= MAXDIG
  /\ prog' = [prog EXCEPT !.steps = Append(@, IF form = "" THEN [op |-> op, a |-> R(a), dst |-> d]
                                              ELSE [op |-> op, form |-> form, a |-> R(a), dst |-> d])]
  /\ dg' = [dg EXCEPT ![d] = fd(dg[a])] /\ sc' = [sc EXCEPT ![d] = fs(sc[a])]
Id(x) == x
RescaleUp ==
  \E a \in {Pick(Reg)}, d \in {Pick(Reg)}, dt \in {Pick(0..12)}, f \in {Pick({"with_scale", "to_owned_with_scale"})} :
  /\ dg[a] + dt <= MAXDIG
  /\ prog' = [prog EXCEPT !.steps = Append(@, [op |-> "with_scale", form |-> f, a |-> R(a), dt |-> dt, dst |-> d])]
  /\ dg' = [dg EXCEPT ![d] = dg[a] + dt] /\ sc' = [sc EXCEPT ![d] = sc[a] + dt]
Sum ==
  \E a \in {Pick(Reg)}, b \in {Pick(Reg)}, c \in {Pick(Reg)}, d \in {Pick(Reg)}, f \in {Pick({"owned", "refs"})} :
  LET ndg == MaxI(MaxI(dg[a], dg[b]), dg[c]) + sc[a] + sc[b] + sc[c] + 2 IN
  /\ ndg <= MAXDIG
  /\ prog' = [prog EXCEPT !.steps = Append(@, [op |-> "sum", form |-> f, xs |-> <<R(a), R(b), R(c)>>, dst |-> d])]
  /\ dg' = [dg EXCEPT ![d] = ndg] /\ sc' = [sc EXCEPT ![d] = MaxI(MaxI(sc[a], sc[b]), sc[c])]
\* observations along the way (no register changes)
Observe ==
  \E a \in {Pick(Reg)}, b \in {Pick(Reg)}, cf \in {Pick({"eq_val", "cmp_val", "eq_dref", "cmp_dref", "lt_val", "ne_val"})}, w \in {Pick(1..3)} :
  LET ev == IF w = 1 THEN [op |-> "hash", a |-> R(a)] ELSE [op |-> "cmp", form |-> cf, a |-> R(a), b |-> R(b)] IN
  /\ prog' = [prog EXCEPT !.steps = Append(@, ev)] /\ UNCHANGED <<dg, sc>>

\* ---- MIXED programs: rounding, division, remainder, roots and reciprocal between the exact operations, so that every
\*      operation also meets operands that an earlier operation of another kind produced (whatever scale, trailing zeros
\*      or length it left them with).  Each step is judged by the verdict operator of its own operation.
ModeSet == {"Up", "Down", "Ceiling", "Floor", "HalfUp", "HalfDown", "HalfEven"}
RoundStep ==
  \E a \in {Pick(Reg)}, d \in {Pick(Reg)}, w \in {Pick(1..5)}, t \in {Pick(-6..12)}, p \in {Pick(1..30)}, m \in {Pick(ModeSet)},
     cf \in {Pick({"round_decimal", "round_decimal_ref_ref", "round_decimal_ref_dref", "round_with_context"})} :
  LET ev == CASE w = 1 -> [op |-> "with_scale_round", a |-> R(a), t |-> t, m |-> m, dst |-> d]
              [] w = 2 -> [op |-> "with_precision_round", a |-> R(a), p |-> p, m |-> m, dst |-> d]
              [] w = 3 -> [op |-> "with_prec", a |-> R(a), p |-> p, dst |-> d]
              [] w = 4 -> [op |-> "round", a |-> R(a), t |-> t, dst |-> d]
              [] OTHER -> [op |-> "ctx_round", form |-> cf, a |-> R(a), p |-> p, m |-> m, dst |-> d]
  \* (no growth guard here: the sizes after a rounding depend on the values; the driver skips a step whose operands have
  \*  grown beyond its limits, and the register bounds below are reset to a nominal size)
  IN /\ prog' = [prog EXCEPT !.steps = Append(@, ev)]
     /\ dg' = [dg EXCEPT ![d] = 40] /\ sc' = [sc EXCEPT ![d] = 12]
FuncStep ==
  \E a \in {Pick(Reg)}, b \in {Pick(Reg)}, d \in {Pick(Reg)}, w \in {Pick(1..7)}, p \in {Pick(1..24)}, m \in {Pick(ModeSet)},
     df \in {Pick({"val_val", "val_ref", "ref_val", "ref_ref", "val_i32", "ref_u8", "assign_i64", "assign_ru16", "val_ru64"})}, rf \in {Pick(RemForms)},
     k2 \in {Pick(SmallInts)},
     sf \in {Pick({"ctx", "dref_ctx", "dref_abs", "dref_copysign"})} :
  LET ev == CASE w = 1 -> [op |-> "sqrt", form |-> sf, a |-> R(a), p |-> p, m |-> m, dst |-> d]
              [] w = 2 -> [op |-> "cbrt", form |-> "ctx", a |-> R(a), p |-> p, m |-> m, dst |-> d]
              [] w = 3 -> [op |-> "inverse", form |-> "ctx", a |-> R(a), p |-> p, m |-> m, dst |-> d]
              [] w \in {4, 5} -> [op |-> "div", form |-> df, a |-> R(a),
                                   b |-> (IF KindsOf[df][2] \in DecKinds THEN R(b) ELSE IntFor(KindsOf[df][2], k2)),
                                   dst |-> (IF KindsOf[df][1] = "assign" THEN a ELSE d)]
              [] OTHER -> [op |-> "rem", form |-> rf, a |-> R(a), b |-> R(b), dst |-> (IF rf = "assign_ref" THEN a ELSE d)]
      dstr == IF (w \in {4, 5} /\ KindsOf[df][1] = "assign") \/ (w > 5 /\ rf = "assign_ref") THEN a ELSE d
  IN /\ prog' = [prog EXCEPT !.steps = Append(@, ev)]
     /\ dg' = [dg EXCEPT ![dstr] = 40] /\ sc' = [sc EXCEPT ![dstr] = 12]

Next ==
  IF Len(prog.loads) < NREG THEN Load ELSE
  /\ Len(prog.steps) < DEPTH
  /\ \E k \in {Pick(IF MIXED THEN 1..28 ELSE 1..20)}, uf \in {Pick(1..3)} :
     CASE k > 24 -> FuncStep
       [] k > 20 -> RoundStep
       [] k <= 4 -> Binary("add", AddForms)
       [] k <= 7 -> Binary("sub", SubForms)
       [] k <= 10 -> Binary("mul", MulForms)
       [] k = 11 -> Unary("neg", <<"val", "ref", "dref">>[uf], Id, Id)
       [] k = 12 -> Unary("abs", <<"method", "signed", "dref">>[uf], Id, Id)
       [] k = 13 -> Unary("double", "", LAMBDA x : x + 1, Id)
       [] k = 14 -> Unary("half", "", LAMBDA x : x + 1, LAMBDA x : x + 1)
       [] k = 15 -> Unary("square", "", LAMBDA x : 2 * x, LAMBDA x : 2 * x)
       [] k = 16 -> RescaleUp
       [] k = 17 -> Unary("normalized", "", Id, Id)
       [] k = 18 -> Unary("parts", <<"to_ref_to_owned", "clone", "clone_into">>[uf], Id, Id)
       [] k = 19 -> Sum
       [] OTHER -> Observe
\* a guard that fails leaves the program unchanged for this step (the simulator then draws again)
Spec == Init /\ [][Next]_vars

Emit == (Len(prog.steps) = DEPTH) => PrintT(<<"RUN", ToJson([gen |-> "program", loads |-> prog.loads, steps |-> prog.steps])>>)
=============================================================================
