---------------------------- MODULE MC_ExpMech ----------------------------
(***************************************************************************)
(* Mechanism-level model of exp (C13, and C20 for the configured number of *)
(* digits), structured like BigDecimal::exp / exp_with_guard_digits in     *)
(* src/lib.rs: one action per step.                                        *)
(*   Pick     the argument x = +-k * 10^-sc                                *)
(*   Start    term = |x|, result = |x| + 1, factorial = 1, n = 2           *)
(*   Term     term *= |x| (exact); factorial *= n; result += term/factorial*)
(*            by the digit-loop division carried to T + 17 + digits(x)     *)
(*            significant digits; the sum trimmed to T + 5 digits; stop    *)
(*            when two successive trimmed sums are equal                   *)
(*   Invert   (x < 0) the reciprocal routine at T + 5 digits, half-even    *)
(*   Trim     with_prec(T)                                                 *)
(* T is the configured default precision: 100 as shipped, anything the     *)
(* RUST_BIGDECIMAL_DEFAULT_PRECISION build variable says otherwise.        *)
(* Checked for every argument of the pool:                                 *)
(*   Terminates   the series loop stops within NTERMS terms                *)
(*   Increasing   partial sums never decrease (all terms are positive)     *)
(*   SeriesOK     the trimmed series sum is right to T + 4 digits           *)
(*   ResultOK     the result satisfies the relation the trace specification*)
(*                applies to the crate: positive, within one unit of the   *)
(*                T-th digit of the interval enclosure of e^x              *)
(* Every completed behaviour is printed and replayed on the crate built    *)
(* with the same T, where the outcome is compared digit for digit.         *)
(***************************************************************************)
EXTENDS Mech, Json
CONSTANTS T, KMAX, NTERMS, POOL

VARIABLES pc, x, term, result, prev, fact, nn, out
vars == <<pc, x, term, result, prev, fact, nn, out>>

ScalesSmall == {0, 1, 3}
ScalesWide == {-1, 0, 1, 2, 5, 12}
\* a few long arguments for the shipped precision
LongArgs == { Mk(1, One, 0), Mk(-1, <<5>>, 1), Mk(1, <<1, 4, 1, 3>>, 3), Mk(-1, <<9, 9>>, 1),
              Mk(1, <<7>>, 30), Mk(-1, <<5, 8, 5, 2, 0, 3, 2>>, 6), Mk(1, <<1, 1>>, 0) }
Args == IF POOL = "long" THEN LongArgs
        ELSE IF POOL = "two" THEN {Mk(1, One, 0), Mk(-1, <<5>>, 1)}
        ELSE {Mk(sg, NatOf(k), sc) : sg \in {-1, 1}, k \in 1..KMAX, sc \in (IF POOL = "wide" THEN ScalesWide ELSE ScalesSmall)}

A == DAbs(x)
DivPrec == T + 17 + Digits(x)

Init == /\ pc = "pick" /\ x = DZero /\ term = DZero /\ result = DZero /\ prev = DZero /\ fact = One /\ nn = 0 /\ out = DZero
Pick == /\ pc = "pick" /\ x' \in Args /\ pc' = "start"
        /\ UNCHANGED <<term, result, prev, fact, nn, out>>
Start == /\ pc = "start"
         /\ term' = A /\ result' = DAdd(A, DOne) /\ prev' = result' /\ fact' = One /\ nn' = 2
         /\ pc' = "loop" /\ UNCHANGED <<x, out>>
Term == /\ pc = "loop" /\ nn <= NTERMS
        /\ LET t == DMul(term, A)
               f == NMulSmall(fact, nn)
               q == DivMech(t, Mk(1, f, 0), DivPrec)
               r == DAdd(result, q)
               trimmed == WithPrec(r, T + 5)
           IN /\ term' = t /\ fact' = f /\ result' = r
              /\ IF ValEq(prev, trimmed)
                   THEN /\ out' = trimmed /\ pc' = (IF x.s < 0 THEN "invert" ELSE "trim") /\ UNCHANGED <<prev, nn>>
                   ELSE /\ prev' = trimmed /\ nn' = nn + 1 /\ pc' = "loop" /\ out' = out
        /\ UNCHANGED x
Invert == /\ pc = "invert"
          /\ out' = InvRoutine(out, T + 5, "HalfEven")
          /\ pc' = "trim" /\ UNCHANGED <<x, term, result, prev, fact, nn>>
Trim == /\ pc = "trim"
        /\ out' = WithPrec(out, T)
        /\ pc' = "done" /\ UNCHANGED <<x, term, result, prev, fact, nn>>
Next == Pick \/ Start \/ Term \/ Invert \/ Trim
Spec == Init /\ [][Next]_vars
\* the series loop has no bound in the code; under weak fairness every behaviour must reach "done" (a loop still running
\* after NTERMS terms has no successor in the model and violates this)
FairSpec == Spec /\ WF_vars(Next)
EventuallyDone == <>(pc = "done")

Terminates == nn <= NTERMS
Increasing == [][pc = "loop" /\ pc' = "loop" => DCmp(result, result') <= 0]_vars
PositiveSums == pc = "loop" => result.s = 1 /\ term.s = 1
ResultOK == pc = "done" => ExpValOK(x, T, out) = OK
\* the trimmed series sum for |x| is accurate to its last digit but one: the loop stops as soon as a term no longer
\* changes the trimmed sum, and the terms still to come (a geometric tail of ratio |x|/n) may add up to a few units of
\* the (T+5)-th digit - TLC shows 1.4 units for x = -60 at T = 2; the guard digits absorb it (ResultOK)
SeriesOK == pc \in {"invert"} \/ (pc = "trim" /\ x.s > 0) => ExpValOK(A, T + 4, out) = OK

RECURSIVE Limbs9(_)
Limbs9(d) == IF d = <<>> THEN <<>> ELSE <<ToInt(Low(d, 9))>> \o Limbs9(Shr(d, 9))
Wire(y) == [s |-> y.s, l |-> Limbs9(y.d), e |-> y.sc]
Emit == pc = "done" => PrintT(<<"RUN", ToJson([gen |-> "exp_mech", a |-> Wire(x), mech |-> Wire(out), T |-> T, terms |-> nn])>>)
=============================================================================
