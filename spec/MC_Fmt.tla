------------------------------ MODULE MC_Fmt ------------------------------
(***************************************************************************)
(* Exhaustive small scope for the formatters (C04, C16): digit strings of  *)
(* length 1..LEN in the shapes that matter (all nines, powers of ten,      *)
(* trailing zeros, generic), every scale in SCLO..SCHI, both signs, zero,  *)
(* under several build-time configurations.  Each mechanism-level          *)
(* formatter must produce a numeral that satisfies the declarative         *)
(* relation of the trace specification.  The decimals are printed as       *)
(* behaviours; the harness renders them with the real formatters.          *)
(***************************************************************************)
EXTENDS Fmt, Json
CONSTANTS LEN, SCLO0, SCHI, NMAX

SCLO == -SCLO0
Cfgs == { [lowThr |-> 5, highThr |-> 15, maxPad |-> 1000, mode |-> "HalfEven"],
          [lowThr |-> 1, highThr |-> 0, maxPad |-> 5, mode |-> "Up"],
          [lowThr |-> 9, highThr |-> 40, maxPad |-> 0, mode |-> "Floor"] }
Shapes(n) == { [i \in 1..n |-> 9], [i \in 1..n |-> IF i = n THEN 1 ELSE 0],
               [i \in 1..n |-> IF i = 1 THEN 0 ELSE ((i * 7) % 9) + 1], [i \in 1..n |-> ((i * 3) % 10)] }
VARIABLES a, ph
Init == ph = 0 /\ a = DZero
\* two levels, so that the successors are spread over all workers
PickScale == ph = 0 /\ ph' = 1 /\ \E sc \in SCLO..SCHI : a' = Mk(0, <<>>, sc)
PickDigits == ph = 1 /\ ph' = 2 /\ \E n \in 1..LEN, sg \in {-1, 1} :
                 \E d \in Shapes(n) \cup {<<>>} : a' = Mk(sg, Strip(d), a.sc)
Next == PickScale \/ PickDigits

RB(t) == [t |-> t, rp |-> [d |-> [s |-> ParseValue(t).s, l |-> <<>>, e |-> 0]]]    \* unused by FmtRelOK
Rel(kind, t, c) == IsNumeral(t) /\ FmtRelOK(kind, W(a), t, c)
NoPrec == ph = 2 => \A c \in Cfgs :
  /\ Rel("display", DisplayM(a, c), c)
  /\ Rel("lowerexp", ExpM(a, ce), c) /\ Rel("upperexp", ExpM(a, cE), c)
  /\ Rel("sci", SciM(a), c) /\ Rel("eng", EngM(a), c)
  /\ (a.sc >= -30 => Rel("plain", PlainM(a), c))
WithPrec == ph = 2 /\ a.sc >= -12 /\ a.sc <= 12 => \A c \in Cfgs : \A N \in 0..NMAX :
  /\ IsNumeral(DisplayPrecM(a, N, c)) /\ FmtPrecRelOK("display", a, N, DisplayPrecM(a, N, c), c)
  /\ IsNumeral(ExpPrecM(a, N, ce, c)) /\ FmtPrecRelOK("lowerexp", a, N, ExpPrecM(a, N, ce, c), c)
\* C17: the json_num adapters serialise the Display text as a JSON number, so it must be one (a zero with a
\* negative scale used to be written "00")
DisplayIsJson == ph = 2 => \A c \in Cfgs : IsJsonNumber(DisplayM(a, c))
Wire(y) == [s |-> y.s, l |-> IF y.d = <<>> THEN <<>> ELSE <<ToInt(y.d)>>, e |-> y.sc]
Emit == ph = 2 => PrintT(<<"RUN", ToJson([gen |-> "fmt_family", a |-> Wire(a)])>>)
=============================================================================
