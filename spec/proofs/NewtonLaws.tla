----------------------------- MODULE NewtonLaws -----------------------------
(***************************************************************************)
(* Machine-checked (TLAPS) algebra behind the reciprocal routine (C12):    *)
(* one exact Newton step r' = r(2 - s r) squares the residual 1 - s r.     *)
(* Stated over the integers: Quadratic is the identity itself; in         *)
(* QuadraticScaled S and R are the integers of two decimals with the unit  *)
(* u (a power of ten), i.e. s = S/u, r = R/u, everything multiplied out.   *)
(* MC_Inverse checks the same identity on the actual decimals of every     *)
(* behaviour (invariant Quadratic); here it holds for all s and r.         *)
(* Consequence proved as well: the residual after a step is never         *)
(* negative - every iterate after the first lies at or below 1/s.          *)
(***************************************************************************)
EXTENDS Integers

THEOREM Quadratic ==
  \A s, r \in Int : 1 - s * (r * (2 - s * r)) = (1 - s * r) * (1 - s * r)
  OBVIOUS

\* scaled form: u is the unit (a power of ten); S, R are the scaled integers of s and r (value = S/u, R/u)
THEOREM QuadraticScaled ==
  \A u, S, R \in Int : u * u * u * u - S * (R * (2 * u * u - S * R)) = (u * u - S * R) * (u * u - S * R)
  OBVIOUS

THEOREM ResidualNonNegative ==
  \A s, r \in Int : 1 - s * (r * (2 - s * r)) >= 0
  <1> TAKE s, r \in Int
  <1>1. 1 - s * (r * (2 - s * r)) = (1 - s * r) * (1 - s * r) BY Quadratic
  <1>2. \A e \in Int : e * e >= 0 OBVIOUS
  <1> QED BY <1>1, <1>2
=============================================================================
