--------------------------- MODULE RoundingLaws ---------------------------
(***************************************************************************)
(* Machine-checked (TLAPS) laws of the rounding decision RoundAway of      *)
(* module Rounding, for all arguments - no bound.  The definition below is *)
(* a verbatim copy of the one in ../Rounding.tla (bin/prove_laws  *)
(* compares the two texts before calling tlapm), kept in a module of its   *)
(* own because the proof manager does not load the CommunityModules that   *)
(* Rounding's ancestors extend.                                            *)
(*   MirrorLaw   rounding -x under the mirrored mode moves the magnitude   *)
(*               exactly when rounding x under the mode does (C11, C12:    *)
(*               cbrt(-x), inverse(-x) under Floor = -(...) under Ceiling) *)
(*   ExactStays  a value already on the grid is never moved (C06, C07)     *)
(*   Directed    Up always moves an inexact value away, Down never does    *)
(*   HalfAgree   the three half modes differ only on exact ties            *)
(*   TieRules    what each half mode does on an exact tie                  *)
(***************************************************************************)
EXTENDS Integers

Modes == {"Up", "Down", "Ceiling", "Floor", "HalfUp", "HalfDown", "HalfEven"}
Mirror(m) == CASE m = "Ceiling" -> "Floor" [] m = "Floor" -> "Ceiling" [] OTHER -> m

\* ---- BEGIN COPY (Rounding.tla)
RoundAway(mode, neg, keepOdd, firstDropped, restZero) ==
  IF firstDropped = 0 /\ restZero THEN FALSE
  ELSE CASE mode = "Up" -> TRUE
         [] mode = "Down" -> FALSE
         [] mode = "Ceiling" -> ~neg
         [] mode = "Floor" -> neg
         [] OTHER -> IF firstDropped > 5 THEN TRUE
                     ELSE IF firstDropped < 5 THEN FALSE
                     ELSE IF ~restZero THEN TRUE
                     ELSE CASE mode = "HalfUp" -> TRUE
                            [] mode = "HalfDown" -> FALSE
                            [] OTHER -> keepOdd
\* ---- END COPY

THEOREM MirrorLaw ==
  \A m \in Modes, neg \in BOOLEAN, odd \in BOOLEAN, d \in 0..9, z \in BOOLEAN :
    RoundAway(Mirror(m), ~neg, odd, d, z) = RoundAway(m, neg, odd, d, z)
  BY DEF Modes, Mirror, RoundAway

THEOREM ExactStays ==
  \A m \in Modes, neg \in BOOLEAN, odd \in BOOLEAN : ~RoundAway(m, neg, odd, 0, TRUE)
  BY DEF Modes, RoundAway

THEOREM Directed ==
  \A neg \in BOOLEAN, odd \in BOOLEAN, d \in 0..9, z \in BOOLEAN :
    /\ ~RoundAway("Down", neg, odd, d, z)
    /\ (d # 0 \/ ~z) => RoundAway("Up", neg, odd, d, z)
    /\ (d # 0 \/ ~z) => (RoundAway("Ceiling", neg, odd, d, z) <=> ~neg)
    /\ (d # 0 \/ ~z) => (RoundAway("Floor", neg, odd, d, z) <=> neg)
  BY DEF RoundAway

THEOREM HalfAgree ==
  \A neg \in BOOLEAN, odd \in BOOLEAN, d \in 0..9, z \in BOOLEAN :
    (d # 5 \/ ~z) =>
      /\ RoundAway("HalfUp", neg, odd, d, z) = RoundAway("HalfDown", neg, odd, d, z)
      /\ RoundAway("HalfUp", neg, odd, d, z) = RoundAway("HalfEven", neg, odd, d, z)
  BY DEF RoundAway

THEOREM TieRules ==
  \A neg \in BOOLEAN, odd \in BOOLEAN :
    /\ RoundAway("HalfUp", neg, odd, 5, TRUE)
    /\ ~RoundAway("HalfDown", neg, odd, 5, TRUE)
    /\ RoundAway("HalfEven", neg, odd, 5, TRUE) <=> odd
  BY DEF RoundAway
=============================================================================
