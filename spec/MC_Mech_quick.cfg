INIT Init
NEXT Next
CHECK_DEADLOCK FALSE
INVARIANT TenOK
INVARIANT DigitsOK
INVARIANT TermOK
INVARIANT LazyOK
CONSTANTS
  PMAX = 1300
  BMAX = 700
  NBITS = 16
