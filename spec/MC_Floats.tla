---------------------------- MODULE MC_Floats ----------------------------
(***************************************************************************)
(* Exhaustive model of the IEEE-754 decoder of the specification on the    *)
(* 16-bit binary format (all 65536 bit patterns; the decoder is generic in *)
(* the field widths, binary32/64 are the same operators with other         *)
(* constants): the decoded decimal equals the value computed with native   *)
(* integers (in units of 2^-24), subnormals and zeros included; decoding   *)
(* is strictly monotone on positive patterns; NaN / infinity are exactly   *)
(* the patterns with the maximal exponent field.  Also: integer            *)
(* conversions (C15) against native truncation on 8-bit types.             *)
(***************************************************************************)
EXTENDS Ops
VARIABLES b, ph
Init == ph = 0 /\ b = 0
PickHi == ph = 0 /\ ph' = 1 /\ b' \in {256 * h : h \in 0..255}
PickLo == ph = 1 /\ ph' = 2 /\ b' \in {b + lo : lo \in 0..255}
Next == PickHi \/ PickLo

Bits == NatOf(b)
Sg == b \div 32768   Ex == (b \div 1024) % 32   Mn == b % 1024
\* value * 2^24 as a native integer (at most 2047 * 2^29 would overflow: use units of 2^-24 only for e <= 17, else compare scaled down)
Pow2(n) == 2 ^ n
NativeUnits == IF Ex = 0 THEN Mn ELSE (1024 + Mn) * Pow2(Ex - 1)        \* in units of 2^-24; Ex <= 30 => < 2^41: too big for 32 bit
Decoded == FloatValue(Bits, 16)
DecodeRight == ph = 2 /\ Ex # 31 =>
  /\ Fields(Bits, 16) = <<Sg, Ex, NatOf(Mn)>>
  /\ IsFiniteF(Bits, 16)
  \* value = M * 2^(e-25): multiply the decoded decimal by 2^24 and compare with the integer M * 2^(e-1) built from BigNat powers
  /\ ValEq(DMul(Decoded, Mk(1, P2(24), 0)),
           Mk(IF Sg = 1 THEN -1 ELSE 1, IF Ex = 0 THEN NatOf(Mn) ELSE NMul(NatOf(1024 + Mn), P2(Ex - 1)), 0))
  /\ (Decoded.d = <<>> <=> (Ex = 0 /\ Mn = 0))
  \* strictly monotone: the next pattern of the same sign decodes to a larger magnitude
  /\ (Ex # 30 \/ Mn # 1023 => DCmp(DAbs(FloatValue(NatOf(b + 1), 16)), DAbs(Decoded)) > 0)
NonFinite == ph = 2 /\ Ex = 31 => ~IsFiniteF(Bits, 16) /\ (IsInfF(Bits, 16) <=> Mn = 0)

\* C15 on toy widths: every decimal n * 10^-sc with n = b % 1024 (signed by the top bit), sc in -1..2, against native truncation
ConvX(sc) == Mk(IF Sg = 1 THEN -1 ELSE 1, NatOf(Mn), sc)
NativeTrunc(sc) == (IF Sg = 1 THEN -1 ELSE 1) * (IF sc <= 0 THEN Mn * Pow10Tab[1 - sc] ELSE Mn \div Pow10Tab[sc + 1])
Out(t, lo, hi, negUnsigned) == IF negUnsigned \/ t < lo \/ t > hi THEN [none |-> 1]
                               ELSE [n |-> [s |-> IF t < 0 THEN -1 ELSE IF t = 0 THEN 0 ELSE 1, l |-> IF t = 0 THEN <<>> ELSE <<AbsI(t)>>]]
ConvertRight == ph = 2 /\ Ex = 0 => \A sc \in -1..2 :
  LET x == ConvX(sc)  t == NativeTrunc(sc) IN
  /\ ToIntOK("i8", x, Out(t, -128, 127, FALSE)) = OK
  /\ ToIntOK("u8", x, Out(t, 0, 255, x.s < 0)) = OK
  /\ (t + 1 <= 127 /\ t + 1 >= -128 => ToIntOK("i8", x, Out(t + 1, -128, 127, FALSE)) # OK)
  /\ (t >= -128 /\ t <= 127 => ToIntOK("i8", x, [none |-> 1]) # OK)
  /\ IsIntegerOK(x, [b |-> (sc <= 0 \/ Mn % Pow10Tab[sc + 1] = 0)]) = OK
=============================================================================
