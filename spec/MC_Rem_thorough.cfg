INIT Init
NEXT Next
CHECK_DEADLOCK FALSE
INVARIANT RemIdentity
INVARIANT FastAgrees
INVARIANT DivMechOK
INVARIANT Emit
CONSTANTS
  K = 40
  GAPMAX = 130
