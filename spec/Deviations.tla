---------------------------- MODULE Deviations ----------------------------
(***************************************************************************)
(* Known findings: genuine defects of the crate that are recorded in       *)
(* /verif/known_findings.json instead of being repaired.  Each is a NAMED  *)
(* deviation, as narrow as the defect: the region of inputs and, as far as *)
(* possible, the shape of the wrong answer.  An event the specification    *)
(* rejects is labelled <<"dev", id>> when a deviation explains it; the     *)
(* orchestrator reports it as KNOWN-FINDING only if `id` is listed as open *)
(* in known_findings.json, and as VIOLATION otherwise.  Everything outside *)
(* these predicates stays a violation.                                     *)
(***************************************************************************)
EXTENDS Ops

\* (The former deviation KF_C12_SmallPrecision - inverse() stopping before convergence at precisions 1..3 - was
\*  removed when the defect was repaired in the crate; such an outcome is a violation again.)

\* C17: a JSON number that is first parsed into a serde_json::Value and then converted with from_value reaches
\* the crate as a binary float (serde_json's Number::deserialize_any tries u64, i64, f64 before handing over
\* the digits), so a number that is not a 64-bit integer is NOT converted digit for digit: the result is the
\* exact decimal expansion of the nearest f64 (relative error <= 2^-52, or one subnormal step), or an error when it overflows f64.
KF_C17_ValueThroughFloat(form, rawdoc, r) ==
  /\ form = "plain_value"
  /\ LET doc == TrimWs(rawdoc) IN
     /\ IsJsonNumber(doc) /\ IsNumeral(doc)
     /\ LET pv == ParseValue(doc) IN
        IF IsD(r)
        THEN /\ ZSmall(pv.z)
             /\ LET x == WToDec(pv)  y == DecOf(r.d)
                IN \/ DLe(DMul(DAbs(DSub(y, x)), Mk(1, P2(52), 0)), DAbs(x))
                   \/ DLe(DAbs(DSub(y, x)), F64Step)              \* subnormal range: absolute error of one step
        ELSE IsErr(r) /\ pv.d # <<>> /\ (~ZSmall(pv.z) \/ AbsI(Len(pv.d) - ZToInt(pv.z)) > 300)
=============================================================================
