---------------------------- MODULE Deviations ----------------------------
(***************************************************************************)
(* Known findings: genuine defects of the crate that are recorded in       *)
(* /verif/known_findings.json instead of being repaired.  Each is a NAMED  *)
(* deviation, as narrow as the defect: the region of inputs and, as far as *)
(* possible, the shape of the wrong answer.  An event the specification    *)
(* rejects is labelled <<"dev", id>> when a deviation explains it; the     *)
(* orchestrator reports it as KNOWN-FINDING only if `id` is listed as open *)
(* in known_findings.json, and as VIOLATION otherwise.  Everything outside *)
(* these predicates stays a violation.                                     *)
(***************************************************************************)
EXTENDS Ops

\* C12: at precisions 1..3 the Newton iteration of inverse() stops when two successive p-digit roundings
\* agree, which can happen before convergence: the result then has the right sign and is still within TWO
\* units of its p-th digit of 1/x (observed: exactly one unit off, e.g. 1/5e20 -> 1e-21 at p = 1, Down),
\* including for reciprocals that terminate within p digits.
KF_C12_SmallPrecision(op, x, p, r, why) ==
  /\ op \in {"inverse", "div"}
  /\ p <= 3
  /\ why \in {"one-unit-or-more-off", "terminating-reciprocal-not-exact"}
  /\ IsD(r)
  /\ LET y == DecOf(r.d)
         u == Ulp(-(AdjInv(x) - p + 1))
     IN /\ y.s = x.s
        /\ DCmp(DAbs(DSub(DMul(x, y), DOne)), DMul(DAbs(x), DAdd(u, u))) < 0
=============================================================================
