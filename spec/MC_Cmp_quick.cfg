INIT Init
NEXT Next
CHECK_DEADLOCK FALSE
INVARIANT Agree
INVARIANT Transitive
INVARIANT HashAgrees
INVARIANT Emit
CONSTANTS
  K = 25
  PRINTK = 8
