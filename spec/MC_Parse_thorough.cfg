INIT Init
NEXT Next
CHECK_DEADLOCK FALSE
INVARIANT GrammarVsAlgo
INVARIANT Emit
CONSTANTS
  L = 7
