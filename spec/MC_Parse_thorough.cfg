INIT Init
NEXT Next
CHECK_DEADLOCK FALSE
INVARIANT GrammarVsAlgo
INVARIANT JsonSubset
INVARIANT Emit
CONSTANTS
  L = 7
