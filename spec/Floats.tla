------------------------------ MODULE Floats ------------------------------
(***************************************************************************)
(* IEEE-754 binary32 / binary64 bit patterns and the exact decimals they   *)
(* denote (C14).  A bit pattern travels as a big integer; fields are split *)
(* by long division with powers of two.                                    *)
(***************************************************************************)
EXTENDS Wide

\* powers of two and five up to 2^1151 / 5^1151: tables at multiples of 64 (constant, built once), times a small power
PowTab(b) == LET step == NPow(b, 64)
             IN FoldLeft(LAMBDA acc, i : Append(acc, NMul(acc[Len(acc)], step)), <<One>>, [i \in 1..17 |-> i])
P2Tab == PowTab(Two)
P5Tab == PowTab(<<5>>)
P2(n) == IF n < 64 THEN NPow(Two, n) ELSE NMul(P2Tab[(n \div 64) + 1], NPow(Two, n % 64))
P5(n) == IF n < 64 THEN NPow(<<5>>, n) ELSE NMul(P5Tab[(n \div 64) + 1], NPow(<<5>>, n % 64))
MantBits(w) == IF w = 64 THEN 52 ELSE IF w = 32 THEN 23 ELSE 10
ExpBits(w) == IF w = 64 THEN 11 ELSE IF w = 32 THEN 8 ELSE 5
ExpMaxField(w) == IF w = 64 THEN 2047 ELSE IF w = 32 THEN 255 ELSE 31
\* exponent of the unit of the mantissa: value = M * 2^(e - Bias2) for normal numbers
Bias2(w) == IF w = 64 THEN 1075 ELSE IF w = 32 THEN 150 ELSE 25

\* fields <<sign (0/1), exponent field, mantissa (BigNat)>> of a bit pattern (BigNat)
Fields(bits, w) ==
  LET a == NDivMod(bits, P2(MantBits(w)))
      b == NDivMod(a[1], P2(ExpBits(w)))
  IN <<ToInt(b[1]), ToInt(b[2]), a[2]>>
IsFiniteF(bits, w) == Fields(bits, w)[2] # ExpMaxField(w)
IsInfF(bits, w) == Fields(bits, w)[2] = ExpMaxField(w) /\ Fields(bits, w)[3] = <<>>
SignBit(bits, w) == Fields(bits, w)[1]
\* M * 2^k as an exact decimal
Dyadic(sg, M, k) == IF k >= 0 THEN Mk(sg, NMul(M, P2(k)), 0) ELSE Mk(sg, NMul(M, P5(-k)), -k)
\* the exact decimal value of a finite float
FloatValue(bits, w) ==
  LET f == Fields(bits, w)
      sg == IF f[1] = 1 THEN -1 ELSE 1
  IN IF f[2] = 0 THEN Dyadic(sg, f[3], 1 - Bias2(w))                          \* subnormal (and zero)
     ELSE Dyadic(sg, NAdd(P2(MantBits(w)), f[3]), f[2] - Bias2(w))

F64Max == Dyadic(1, NSub(P2(53), One), 971)
F64MinPositive == Dyadic(1, One, -1022)
F64Step == Dyadic(1, One, -1074)              \* one subnormal step
Two48 == Mk(1, P2(48), 0)
\* to_f64: is the float `bits` an acceptable conversion of the decimal x ?
ToF64OK(x, bits) ==
  LET ax == DAbs(x)
      signOK == SignBit(bits, 64) = (IF x.s < 0 THEN 1 ELSE 0)
  IN IF x.d = <<>> THEN bits = <<>>                                             \* zero converts to +0.0
     ELSE IF ~IsFiniteF(bits, 64)
     THEN \* +-infinity only beyond, or within 2^-48 of, the largest finite f64
          IsInfF(bits, 64) /\ signOK /\ DLe(DMul(F64Max, Mk(1, NSub(P2(48), One), 0)), DMul(ax, Two48))
     ELSE LET F == FloatValue(bits, 64)
              err == DAbs(DSub(F, x))
          IN /\ (F.d # <<>> => signOK)
             /\ IF DLe(F64MinPositive, ax)
                THEN DLe(DMul(err, Two48), ax)                                  \* relative error 2^-48 in the normal range
                ELSE DLe(err, F64Step)                                          \* one subnormal step (possibly zero) below it
\* the same for a decimal whose scale may not fit a native integer (|scale| up to 2^63): beyond 10^9 in magnitude the
\* value is astronomically outside the binary64 range - an infinity of the right sign when huge, zero or one subnormal
\* step of the right sign when tiny
WToF64OK(x, bits) ==
  IF x.d = <<>> THEN bits = <<>>
  ELSE IF ZSmall(x.z) THEN ToF64OK(Mk(x.s, x.d, ZToInt(x.z)), bits)
  ELSE LET signOK == SignBit(bits, 64) = (IF x.s < 0 THEN 1 ELSE 0) IN
       IF WAdj(x).s > 0 THEN IsInfF(bits, 64) /\ signOK
       ELSE /\ IsFiniteF(bits, 64)
            /\ LET F == FloatValue(bits, 64) IN F.d = <<>> \/ (signOK /\ DLe(DAbs(F), F64Step))
=============================================================================
