INIT Init
NEXT Next
CHECK_DEADLOCK FALSE
INVARIANT TenOK
INVARIANT DigitsOK
INVARIANT TermOK
INVARIANT LazyOK
CONSTANTS
  PMAX = 9800
  BMAX = 3000
  NBITS = 20
