------------------------------- MODULE Text -------------------------------
(***************************************************************************)
(* Decimal numerals as text (sequences of Unicode code points).            *)
(*   D  IsNumeral / ParseValue : the grammar a user relies on (C05) and    *)
(*      the number a numeral denotes                                       *)
(*   M  AlgoAccept / AlgoValue : the mechanism anchored in the code:       *)
(*      split at the first e/E, integer exponent, split at the first '.',  *)
(*      concatenate the pieces, hand them to the big-integer parser        *)
(* MC_Parse checks D <=> M on every short string, and against the real     *)
(* crate through an outcome table.                                         *)
(***************************************************************************)
EXTENDS Wide

cPlus == 43  cMinus == 45  cDot == 46  cE == 69  ce == 101  cUnd == 95  c0 == 48  c9 == 57
IsDigitC(c) == c >= c0 /\ c <= c9
IsSignC(c) == c = cPlus \/ c = cMinus

\* index of the first element satisfying a test (0 if none)
FirstIdx(t, Test(_)) == SelectInSeq(t, Test)
AllC(t, Test(_)) == SelectInSeq(t, LAMBDA c : ~Test(c)) = 0
Without(t, i) == IF i = 0 THEN t ELSE SubSeq(t, 1, i - 1) \o SubSeq(t, i + 1, Len(t))
\* big-endian digit characters (no underscores) to a BigNat
DigitsToNat(t) == Strip([i \in 1..Len(t) |-> t[Len(t) + 1 - i] - c0])
NoUnd(t) == SelectSeq(t, LAMBDA c : c # cUnd)

\* a BigNat as big-endian digit characters ("0" for zero); a ZInt with its sign
DigitsText(d) == IF d = <<>> THEN <<c0>> ELSE [i \in 1..Len(d) |-> d[Len(d) + 1 - i] + c0]
ZText(z) == (IF z.s < 0 THEN <<cMinus>> ELSE <<>>) \o DigitsText(z.m)

\* ---------------------------------------------------------------- D: the grammar
\*   numeral ::= sign? body exponent?
\*   body    ::= digits and '_' with at most one '.', at least one digit, first non-'.' character a digit
\*   exponent::= (e|E) sign? digit+
EPos(t) == FirstIdx(t, LAMBDA c : c = ce \/ c = cE)
BaseOf(t) == IF EPos(t) = 0 THEN t ELSE SubSeq(t, 1, EPos(t) - 1)
ExpOf(t) == IF EPos(t) = 0 THEN <<>> ELSE SubSeq(t, EPos(t) + 1, Len(t))
ExpWellFormed(x) ==            \* sign? digit+
  LET k == IF x # <<>> /\ IsSignC(x[1]) THEN 1 ELSE 0
  IN Len(x) > k /\ AllC(SubSeq(x, k + 1, Len(x)), IsDigitC)
ExpValue(x) ==                 \* ZInt value of a well-formed exponent ("" = 0)
  IF x = <<>> THEN ZZero
  ELSE LET k == IF IsSignC(x[1]) THEN 1 ELSE 0
       IN ZMk(IF x[1] = cMinus THEN -1 ELSE 1, DigitsToNat(SubSeq(x, k + 1, Len(x))))
BodyOf(b) == IF b # <<>> /\ IsSignC(b[1]) THEN SubSeq(b, 2, Len(b)) ELSE b
BodyNeg(b) == b # <<>> /\ b[1] = cMinus
BodyWellFormed(body) ==
  LET dp == FirstIdx(body, LAMBDA c : c = cDot)
      ds == Without(body, dp)
  IN /\ ds # <<>> /\ IsDigitC(ds[1])
     /\ AllC(ds, LAMBDA c : IsDigitC(c) \/ c = cUnd)
FracDigits(body) ==            \* digits (not separators) after the point
  LET dp == FirstIdx(body, LAMBDA c : c = cDot)
  IN IF dp = 0 THEN 0 ELSE Len(SelectSeq(SubSeq(body, dp + 1, Len(body)), IsDigitC))
Syntactic(t) ==
  /\ BodyWellFormed(BodyOf(BaseOf(t)))
  /\ (EPos(t) # 0 => ExpWellFormed(ExpOf(t)))
\* scale = fraction digits - exponent, as a ZInt
ScaleOf(t) == ZSub(ZOfInt(FracDigits(BodyOf(BaseOf(t)))), ExpValue(ExpOf(t)))
\* a numeral whose scale leaves the 64-bit range is an error value, not a number
IsNumeral(t) == Syntactic(t) /\ FitsI64(ScaleOf(t))
ParseValue(t) ==               \* wide decimal denoted by a numeral
  LET body == BodyOf(BaseOf(t))
      ds == NoUnd(Without(body, FirstIdx(body, LAMBDA c : c = cDot)))
  IN WMk(IF BodyNeg(BaseOf(t)) THEN -1 ELSE 1, DigitsToNat(ds), ScaleOf(t))

\* ---------------------------------------------------------------- M: the anchored algorithm
\* the big-integer parser: '-' stripped unless followed by '+', then '+' stripped unless followed by '+',
\* non-empty, must lead with a digit (not '_'), only digits and '_'
BigIntAccepts(s) ==
  LET s1 == IF s # <<>> /\ s[1] = cMinus /\ ~(Len(s) >= 2 /\ s[2] = cPlus) THEN SubSeq(s, 2, Len(s)) ELSE s
      s2 == IF s1 # <<>> /\ s1[1] = cPlus /\ ~(Len(s1) >= 2 /\ s1[2] = cPlus) THEN SubSeq(s1, 2, Len(s1)) ELSE s1
  IN s2 # <<>> /\ s2[1] # cUnd /\ AllC(s2, LAMBDA c : IsDigitC(c) \/ c = cUnd)
\* the exponent parser (i128::from_str): sign? digit+ and the value fits 128 bits
I128Accepts(x) == ExpWellFormed(x) /\ ZLe(ZMk(-1, P2_127), ExpValue(x)) /\ ZLe(ExpValue(x), ZMk(1, NSub(P2_127, One)))
AlgoDigits(base) ==            \* what is handed to the big-integer parser; <<"reject">> if refused before
  LET dp == FirstIdx(base, LAMBDA c : c = cDot) IN
  IF dp = 0 THEN <<"ok", base, 0>>
  ELSE IF dp = Len(base) THEN <<"ok", SubSeq(base, 1, Len(base) - 1), 0>>
  ELSE LET lead == SubSeq(base, 1, dp - 1)  trail == SubSeq(base, dp + 1, Len(base)) IN
       IF IsSignC(trail[1]) THEN <<"reject">>
       ELSE <<"ok", lead \o trail, Len(SelectSeq(trail, LAMBDA c : c # cUnd))>>
AlgoAccept(t) ==
  /\ (EPos(t) # 0 => I128Accepts(ExpOf(t)))
  /\ BaseOf(t) # <<>>
  /\ LET ad == AlgoDigits(BaseOf(t)) IN
     /\ ad[1] = "ok"
     /\ FitsI64(ZSub(ZOfInt(ad[3]), ExpValue(ExpOf(t))))
     /\ BigIntAccepts(ad[2])
\* which error value the mechanism reports for a rejected string (growth beyond C05: the error classes)
AlgoErrKind(t) ==
  IF EPos(t) # 0 /\ ~I128Accepts(ExpOf(t)) THEN "ParseInt"
  ELSE IF BaseOf(t) = <<>> THEN "Empty"
  ELSE LET ad == AlgoDigits(BaseOf(t)) IN
       IF ad[1] # "ok" THEN "Other"
       ELSE IF ~FitsI64(ZSub(ZOfInt(ad[3]), ExpValue(ExpOf(t)))) THEN "Other"
       ELSE "ParseBigInt"
AlgoValue(t) ==
  LET ad == AlgoDigits(BaseOf(t))
      s == ad[2]
      neg == s[1] = cMinus
  IN WMk(IF neg THEN -1 ELSE 1, DigitsToNat(SelectSeq(s, IsDigitC)), ZSub(ZOfInt(ad[3]), ExpValue(ExpOf(t))))

\* ---------------------------------------------------------------- JSON numbers (RFC 8259):  -? (0 | [1-9][0-9]*) (. [0-9]+)? ([eE] [+-]? [0-9]+)?
IsJsonNumber(t) ==
  LET k0 == IF t # <<>> /\ t[1] = cMinus THEN 1 ELSE 0
      rest == SubSeq(t, k0 + 1, Len(t))
      ep == EPos(rest)
      mant == IF ep = 0 THEN rest ELSE SubSeq(rest, 1, ep - 1)
      ex == IF ep = 0 THEN <<>> ELSE SubSeq(rest, ep + 1, Len(rest))
      dp == FirstIdx(mant, LAMBDA c : c = cDot)
      ip == IF dp = 0 THEN mant ELSE SubSeq(mant, 1, dp - 1)
      fp == IF dp = 0 THEN <<>> ELSE SubSeq(mant, dp + 1, Len(mant))
  IN /\ ip # <<>> /\ AllC(ip, IsDigitC) /\ (Len(ip) = 1 \/ ip[1] # c0)
     /\ (dp # 0 => fp # <<>> /\ AllC(fp, IsDigitC))
     /\ (ep # 0 => ExpWellFormed(ex))
cQuote == 34
\* JSON insignificant whitespace around a value (space, tab, LF, CR)
IsWsC(c) == c = 32 \/ c = 9 \/ c = 10 \/ c = 13
TrimWs(t) == LET i == FirstIdx(t, LAMBDA c : ~IsWsC(c))
                 j == SelectLastInSeq(t, LAMBDA c : ~IsWsC(c))
             IN IF i = 0 THEN <<>> ELSE SubSeq(t, i, j)
\* "...." without quotes, backslashes or control characters inside
IsPlainJsonString(t) == /\ Len(t) >= 2 /\ t[1] = cQuote /\ t[Len(t)] = cQuote
                        /\ AllC(SubSeq(t, 2, Len(t) - 1), LAMBDA c : c # cQuote /\ c # 92 /\ c >= 32)
Unquote(t) == SubSeq(t, 2, Len(t) - 1)
=============================================================================
