SPECIFICATION Spec
CHECK_DEADLOCK FALSE
INVARIANT Emit
CONSTANTS
  DEPTH = 40
  MAXDIG = 260
  MIXED = TRUE
