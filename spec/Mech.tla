------------------------------- MODULE Mech -------------------------------
(***************************************************************************)
(* Mechanism-level operators: the crate's own routines transcribed step    *)
(* for step (the M layer), shared by the bounded models that check them    *)
(* against the declarative relations of Ops (the D layer):                 *)
(*   DivMech      impl_division: shift up, first division, one quotient    *)
(*                digit per iteration, final half-up step   (MC_Rem, C08)  *)
(*   WithPrec     BigDecimal::with_prec (half away from zero)              *)
(*   InvGuess     make_inv_guess: LN_2 (binary64) * 2^-bits, exact         *)
(*   NewtonStep   r * (2 - s * r)                                          *)
(*   InvRoutine   impl_inverse_uint_scale as a whole       (MC_Inverse)    *)
(*   SqrtRoutine, CbrtRoutine   impl_sqrt, impl_cbrt_uint_scale (MC_Roots) *)
(***************************************************************************)
EXTENDS Ops

\* one quotient digit: the remainder carried into an iteration is below ten times the divisor, so the digit is found by
\* comparing against the ten multiples of the divisor (computed once) - <<digit, remainder>>
DigitStep(r, mult) ==
  LET ge(k) == NCmp(r, mult[k]) >= 0
      k == IF ge(5) THEN (IF ge(7) THEN (IF ge(9) THEN 9 ELSE IF ge(8) THEN 8 ELSE 7)
                                   ELSE (IF ge(6) THEN 6 ELSE 5))
                    ELSE (IF ge(3) THEN (IF ge(4) THEN 4 ELSE 3)
                                   ELSE (IF ge(2) THEN 2 ELSE IF ge(1) THEN 1 ELSE 0))
  IN <<k, IF k = 0 THEN r ELSE NSub(r, mult[k])>>
RECURSIVE DivLoop(_, _, _, _, _, _)
DivLoop(quot, rem10, mult, scale, prec, P) ==      \* rem10 = remainder * 10; quot * 10 + digit = the digit put in front
  IF rem10 = <<>> \/ prec >= P THEN <<quot, rem10, scale>>
  ELSE LET ds == DigitStep(rem10, mult)
       IN DivLoop(<<ds[1]>> \o quot, NMulSmall(ds[2], 10), mult, scale + 1, prec + 1, P)
RECURSIVE ShiftUp(_, _, _)
ShiftUp(num, den, scale) == IF NCmp(num, den) < 0 THEN ShiftUp(NMulSmall(num, 10), den, scale + 1) ELSE <<num, scale>>
DivMech(x, y, P) ==
  IF x.d = <<>> THEN DZero
  ELSE LET su == ShiftUp(x.d, y.d, x.sc - y.sc)
           dm == NDivMod(su[1], y.d)
       IN IF dm[2] = <<>> THEN Mk(x.s * y.s, dm[1], su[2])
          ELSE LET mult == [k \in 0..9 |-> NMulSmall(y.d, k)]
                   st == DivLoop(dm[1], NMulSmall(dm[2], 10), mult, su[2], Len(dm[1]), P)
                   up == st[2] # <<>> /\ DigitStep(st[2], mult)[1] >= 5
               IN Mk(x.s * y.s, IF up THEN NAdd(st[1], One) ELSE st[1], st[3])

\* ---- with_prec: round half away from zero to wp digits when longer, otherwise the same value
WithPrec(x, wp) == IF Digits(x) > wp THEN RoundToPrec(x, wp, "HalfUp") ELSE x

\* ---- reciprocal
DTwo == Mk(1, Two, 0)
RECURSIVE BitsN(_)
BitsN(d) == IF d = <<>> THEN 0 ELSE 1 + BitsN(NDivModSmall(d, 2)[1])          \* bit length of a BigNat
Ln2Mant == <<9,5,3,5,6,1,8,6,7,4,1,3,3,4,2,6>>          \* LN_2 as binary64 = 6243314768165359 * 2^-53 (little-endian digits)
\* LN_2 * 2^-b as an exact decimal (2^-k = 5^k * 10^-k), then `result.scale -= scale`
InvGuess(d, scale) == LET e == 53 + BitsN(d) IN Mk(1, NMul(Ln2Mant, NPow(<<5>>, e)), e - scale)
NewtonStep(s, x) == DMul(x, DSub(DTwo, DMul(s, x)))
InvCap(p) == 64 + 2 * BitsN(NatOf(p + 2))
\* the loop of the repaired routine: stop when the working value repeats or alternates
RECURSIVE InvLoop(_, _, _, _, _, _)
InvLoop(s, r, prev, pprev, wp, left) ==
  IF left = 0 THEN r
  ELSE LET nr == WithPrec(NewtonStep(s, r), wp) IN
       IF ValEq(nr, prev) \/ ValEq(nr, pprev) THEN nr ELSE InvLoop(s, nr, nr, prev, wp, left - 1)
\* impl_inverse_uint_scale on the magnitude s (a positive decimal), context (p, mode)
InvRoutine(s, p, mode) ==
  LET r1 == NewtonStep(s, InvGuess(s.d, s.sc))
      r == InvLoop(s, r1, DZero, DZero, p + 2, InvCap(p))
  IN IF Digits(r) > p THEN RoundToPrec(r, p, mode) ELSE r

\* ---- integer k-th root (floor), Newton from above: the specification's stand-in for num-bigint's sqrt / nth_root
RECURSIVE NRootIter(_, _, _)
NRootIter(n, k, x) ==
  LET xk1 == NPow(x, k - 1)
      y == NDivModSmall(NAdd(NMulSmall(x, k - 1), NDiv(n, xk1)), k)[1]
  IN IF NCmp(y, x) >= 0 THEN x ELSE NRootIter(n, k, y)
NRoot(n, k) == IF n = <<>> THEN <<>> ELSE NRootIter(n, k, Pow10((Len(n) + k - 1) \div k))

\* ---- impl_sqrt (src/arithmetic/sqrt.rs) on a positive decimal: pad to 2(p+5) digits keeping the scale even, integer
\*      root, one extra digit 1 when the root is inexact (sticky), one rounding to p digits
SqrtRoutine(x, p, mode) ==
  LET wanted == 2 * (p + 5)
      e0 == MaxI(0, wanted - Len(x.d))
      e == IF (x.sc + e0) % 2 # 0 THEN e0 + 1 ELSE e0
      shifted == Shl(x.d, e)
      r == NRoot(shifted, 2)
      rs == (x.sc + e) \div 2
      inexact == NMul(r, r) # shifted
      u == IF inexact THEN Mk(1, NAdd(NMulSmall(r, 10), One), rs + 1) ELSE Mk(1, r, rs)
  IN RoundToPrec(u, p, mode)

\* ---- impl_cbrt_uint_scale (src/arithmetic/cbrt.rs): pad to 3(p+4) digits with the scale a multiple of three, integer
\*      cube root, exactness flag, trim to p digits, round the last kept digit from the first trimmed digit and the
\*      (lazily evaluated) all-zero flag under the sign-aware mode
TruncDiv3(a) == IF a >= 0 THEN a \div 3 ELSE -((-a) \div 3)
CbrtRoutine(x, p, mode) ==
  IF x.d = <<>> THEN Mk(0, <<>>, TruncDiv3(x.sc))
  ELSE
  LET req == 3 * (p + 4)
      sh0 == MaxI(0, req - Len(x.d))
      ss == x.sc + sh0
      q == TruncDiv3(ss)
      rem == ss - 3 * q
      ns0 == IF rem > 0 THEN q + 1 ELSE q
      sh == IF rem > 0 THEN sh0 + (3 - rem) ELSE IF rem < 0 THEN sh0 - rem ELSE sh0
      digits == Shl(x.d, sh)
      root == NRoot(digits, 3)
      exact == NMul(NMul(root, root), root) = digits
      trim == Len(root) - p
      kept == Shr(root, trim)
      insig0 == At(root, trim)
      tz == exact /\ LowAllZero(root, trim - 1)
      away == RoundAway(mode, x.s < 0, At(root, trim + 1) % 2 = 1, insig0, tz)
  IN Mk(x.s, IF away THEN NAdd(kept, One) ELSE kept, ns0 - trim)
=============================================================================
