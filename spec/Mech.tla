------------------------------- MODULE Mech -------------------------------
(***************************************************************************)
(* Mechanism-level operators: the crate's own routines transcribed step    *)
(* for step (the M layer), shared by the bounded models that check them    *)
(* against the declarative relations of Ops (the D layer):                 *)
(*   DivMech      impl_division: shift up, first division, one quotient    *)
(*                digit per iteration, final half-up step   (MC_Rem, C08)  *)
(*   WithPrec     BigDecimal::with_prec (half away from zero)              *)
(*   InvGuess     make_inv_guess: LN_2 (binary64) * 2^-bits, exact         *)
(*   NewtonStep   r * (2 - s * r)                                          *)
(*   InvRoutine   impl_inverse_uint_scale as a whole       (MC_Inverse)    *)
(*   ExpRoutine   exp_with_guard_digits / exp              (MC_ExpMech)    *)
(***************************************************************************)
EXTENDS Ops

RECURSIVE DivLoop(_, _, _, _, _, _)
DivLoop(quot, rem10, den, scale, prec, P) ==      \* rem10 = remainder * 10
  IF rem10 = <<>> \/ prec >= P THEN <<quot, rem10, scale>>
  ELSE LET dm == NDivMod(rem10, den)
       IN DivLoop(NAdd(NMulSmall(quot, 10), dm[1]), NMulSmall(dm[2], 10), den, scale + 1, prec + 1, P)
RECURSIVE ShiftUp(_, _, _)
ShiftUp(num, den, scale) == IF NCmp(num, den) < 0 THEN ShiftUp(NMulSmall(num, 10), den, scale + 1) ELSE <<num, scale>>
DivMech(x, y, P) ==
  IF x.d = <<>> THEN DZero
  ELSE LET su == ShiftUp(x.d, y.d, x.sc - y.sc)
           dm == NDivMod(su[1], y.d)
       IN IF dm[2] = <<>> THEN Mk(x.s * y.s, dm[1], su[2])
          ELSE LET st == DivLoop(dm[1], NMulSmall(dm[2], 10), y.d, su[2], Len(dm[1]), P)
                   up == st[2] # <<>> /\ NCmp(NDiv(st[2], y.d), NatOf(5)) >= 0
               IN Mk(x.s * y.s, IF up THEN NAdd(st[1], One) ELSE st[1], st[3])

\* ---- with_prec: round half away from zero to wp digits when longer, otherwise the same value
WithPrec(x, wp) == IF Digits(x) > wp THEN RoundToPrec(x, wp, "HalfUp") ELSE x

\* ---- reciprocal
DTwo == Mk(1, Two, 0)
RECURSIVE BitsN(_)
BitsN(d) == IF d = <<>> THEN 0 ELSE 1 + BitsN(NDivModSmall(d, 2)[1])          \* bit length of a BigNat
Ln2Mant == <<9,5,3,5,6,1,8,6,7,4,1,3,3,4,2,6>>          \* LN_2 as binary64 = 6243314768165359 * 2^-53 (little-endian digits)
\* LN_2 * 2^-b as an exact decimal (2^-k = 5^k * 10^-k), then `result.scale -= scale`
InvGuess(d, scale) == LET e == 53 + BitsN(d) IN Mk(1, NMul(Ln2Mant, NPow(<<5>>, e)), e - scale)
NewtonStep(s, x) == DMul(x, DSub(DTwo, DMul(s, x)))
InvCap(p) == 64 + 2 * BitsN(NatOf(p + 2))
\* the loop of the repaired routine: stop when the working value repeats or alternates
RECURSIVE InvLoop(_, _, _, _, _, _)
InvLoop(s, r, prev, pprev, wp, left) ==
  IF left = 0 THEN r
  ELSE LET nr == WithPrec(NewtonStep(s, r), wp) IN
       IF ValEq(nr, prev) \/ ValEq(nr, pprev) THEN nr ELSE InvLoop(s, nr, nr, prev, wp, left - 1)
\* impl_inverse_uint_scale on the magnitude s (a positive decimal), context (p, mode)
InvRoutine(s, p, mode) ==
  LET r1 == NewtonStep(s, InvGuess(s.d, s.sc))
      r == InvLoop(s, r1, DZero, DZero, p + 2, InvCap(p))
  IN IF Digits(r) > p THEN RoundToPrec(r, p, mode) ELSE r
=============================================================================
