---------------------------- MODULE MC_Programs ----------------------------
(* Bounded instance of Machine: all programs of MAXSTEPS exact operations over a pool of *)
(* special operands (zero with a scale, one written 1.00, a power of ten, value-equal    *)
(* twins, both signs), every representation choice of every intermediate.                *)
EXTENDS Machine
PoolDef == { Mk(0, <<>>, 2), Mk(1, <<0, 0, 1>>, 2), Mk(1, One, 0), Mk(1, One, -2), Mk(-1, <<5, 2>>, 1),
             Mk(1, <<0, 5, 2>>, 2), Mk(1, <<3>>, 0), Mk(-1, <<7>>, -1) }
=============================================================================
