SPECIFICATION Spec
CHECK_DEADLOCK FALSE
INVARIANT VerdictRight
INVARIANT PrefilterSound
CONSTANTS
  WB = 16
  MAXW = 2
  CHECKED = TRUE
