INIT Init
NEXT Next
CHECK_DEADLOCK FALSE
INVARIANT MsatD
INVARIANT Unique
INVARIANT Laws
INVARIANT PrecLaw
INVARIANT PairLaw
INVARIANT Emit
CONSTANTS
  K = 30000
  PAD = 4
  PRINT = TRUE
  PRINTK = 2000
