SPECIFICATION Spec
CHECK_DEADLOCK FALSE
INVARIANT Right
INVARIANT BitsSound
CONSTANTS
  K = 120
  W1 = 8
  W2 = 32
  Variant = "as-written"
