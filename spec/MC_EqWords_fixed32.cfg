SPECIFICATION Spec
CHECK_DEADLOCK FALSE
INVARIANT VerdictRight
INVARIANT PrefilterSound
CONSTANTS
  WB = 32
  MAXW = 2
  CHECKED = TRUE
