------------------------------- MODULE Wide -------------------------------
(***************************************************************************)
(* Signed big integers (ZInt) and decimals whose scale is a ZInt.          *)
(* Used wherever a property talks about the 64-bit boundaries of scales,   *)
(* exponents or precisions (C02 scale gaps beyond 2^63, C04 scales         *)
(* +-10^15, C05 exponents +-(2^63+2), C07 overflow guards, C15 ranges).    *)
(***************************************************************************)
EXTENDS Decimal

ZMk(s, m) == [s |-> IF m = <<>> THEN 0 ELSE s, m |-> m]
ZOf(w) == ZMk(w.s, FromLimbs9(w.l))                 \* wire {"s","l"}
ZOfInt(n) == ZMk(IF n < 0 THEN -1 ELSE 1, NatOf(AbsI(n)))
ZZero == ZMk(0, <<>>)
ZNeg(x) == ZMk(-x.s, x.m)
ZAdd(x, y) == LET r == SAdd(x.s, x.m, y.s, y.m) IN ZMk(r[1], r[2])
ZSub(x, y) == ZAdd(x, ZNeg(y))
ZMul(x, y) == ZMk(x.s * y.s, NMul(x.m, y.m))
ZCmp(x, y) ==
  IF x.s # y.s THEN (IF x.s < y.s THEN -1 ELSE 1)
  ELSE IF x.s = 0 THEN 0 ELSE x.s * NCmp(x.m, y.m)
ZLe(x, y) == ZCmp(x, y) <= 0
ZLt(x, y) == ZCmp(x, y) < 0
\* fits a native TLC int comfortably (|x| < 10^9)
ZSmall(x) == Len(x.m) <= 9
ZToInt(x) == x.s * ToInt(x.m)

\* 2^63, 2^64, 2^127, 2^128 as BigNat (constant, evaluated once by TLC)
P2_63 == NPow(Two, 63)
P2_64 == NPow(Two, 64)
P2_127 == NPow(Two, 127)
P2_128 == NPow(Two, 128)
I64Min == ZMk(-1, P2_63)
I64Max == ZMk(1, NSub(P2_63, One))
FitsI64(z) == ZLe(I64Min, z) /\ ZLe(z, I64Max)

\* wide decimal: [s, d, z] with z a ZInt scale
WMk(s, d, z) == [s |-> IF d = <<>> THEN 0 ELSE s, d |-> d, z |-> z]
\* wire decimal with either "e" (native) or "E" (big) scale
WOf(w) == WMk(w.s, FromLimbs9(w.l), IF "e" \in DOMAIN w THEN ZOfInt(w.e) ELSE ZOf(w.E))
IsWideWire(w) == "E" \in DOMAIN w
WNorm(x) == IF x.d = <<>> THEN WMk(0, <<>>, ZZero)
            ELSE LET k == TZ(x.d) IN WMk(x.s, Shr(x.d, k), ZSub(x.z, ZOfInt(k)))
WValEq(x, y) == WNorm(x) = WNorm(y)
\* adjusted exponent (ZInt): digits - scale - 1
WAdj(x) == ZSub(ZOfInt(Len(x.d) - 1), x.z)
\* compare values; only aligns digits when the adjusted exponents agree (then the gap is at most the digit counts)
WCmpAbs(x, y) ==
  LET c == ZCmp(WAdj(x), WAdj(y)) IN
  IF c # 0 THEN c
  ELSE LET gap == ZToInt(ZSub(x.z, y.z))      \* |gap| <= max digit count, native
       IN IF gap >= 0 THEN NCmp(x.d, Shl(y.d, gap)) ELSE NCmp(Shl(x.d, -gap), y.d)
WCmp(x, y) ==
  IF x.s # y.s THEN (IF x.s < y.s THEN -1 ELSE 1)
  ELSE IF x.s = 0 THEN 0 ELSE x.s * WCmpAbs(x, y)
\* narrow a wide decimal whose scale is small
WToDec(x) == Mk(x.s, x.d, ZToInt(x.z))
=============================================================================
