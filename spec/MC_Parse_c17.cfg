INIT Init
NEXT Next
CHECK_DEADLOCK FALSE
INVARIANT GrammarVsAlgo
INVARIANT JsonSubset
CONSTANTS
  L = 5
