SPECIFICATION Spec
CHECK_DEADLOCK FALSE
INVARIANT Report
POSTCONDITION AllConsumed
