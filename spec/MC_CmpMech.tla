---------------------------- MODULE MC_CmpMech ----------------------------
(***************************************************************************)
(* Mechanism-level model of the ordering (C02), structured like            *)
(* `impl Ord for BigDecimalRef` and `compare_scaled_biguints` in           *)
(* src/impl_cmp.rs: one action per stage of the pipeline, with the machine *)
(* word sizes scaled down so that every stage decides some pairs of a      *)
(* small exhaustive scope.                                                 *)
(*   Signs     compare the signs (Minus < NoSign < Plus); two zeros equal  *)
(*   Scales    order the operands so that A is compared with B * 10^d      *)
(*   Bits      bit-length prefilter: bits(A) < bits(B) + floor(d*log2 10)  *)
(*             decides Less                                                *)
(*   Scalar    the two fast paths on machine integers below W1 and W2      *)
(*             (u64 / u128 in the crate): checked power, checked multiply, *)
(*             "only one side fits" decides, "neither fits" falls through  *)
(*   Count     compare the decimal digit counts                            *)
(*   Digit     walk both digit strings from the top; when one runs out the *)
(*             rest of the other must be all zeros for equality            *)
(*   Fix       undo the operand swap, reverse for negative numbers         *)
(* Invariant Right: the verdict is the order of the denoted values (DCmp,  *)
(* the definition the trace specification applies to the crate), for every *)
(* pair of the scope.  Variant = "taken-digit-ignored" is the slip of      *)
(* looking only at the digits AFTER the one already taken when one string  *)
(* runs out - TLC finds the pair it mis-orders (expected violation).       *)
(***************************************************************************)
EXTENDS Wide, TLC
CONSTANTS K, W1, W2, Variant

VARIABLES pc, a, b, A, B, d, flip, r, i, at
vars == <<pc, a, b, A, B, d, flip, r, i, at>>
SCALES == -2..2
Small == {Mk(sg, NatOf(n), sc) : n \in 0..K, sg \in {-1, 1}, sc \in SCALES}

Pow2Tab == [e \in 0..30 |-> 2 ^ e]
Bits(n) == IF n = 0 THEN 0 ELSE CHOOSE e \in 1..30 : Pow2Tab[e - 1] <= n /\ n < Pow2Tab[e]
\* floor(d * log2(10)) as the crate computes it in binary64, for the scale gaps of the scope
Log2Scaled == [e \in 0..6 |-> CASE e = 0 -> 0 [] e = 1 -> 3 [] e = 2 -> 6 [] e = 3 -> 9 [] e = 4 -> 13 [] e = 5 -> 16 [] e = 6 -> 19]
Cmp3(x, y) == IF x < y THEN -1 ELSE IF x > y THEN 1 ELSE 0

Init == /\ pc = "pick" /\ a = DZero /\ b = DZero /\ A = 0 /\ B = 0 /\ d = 0 /\ flip = FALSE /\ r = 0 /\ i = 0 /\ at = "none"
Pick == \/ /\ pc = "pick" /\ a' \in Small /\ pc' = "pick2" /\ UNCHANGED <<b, A, B, d, flip, r, i, at>>
        \/ /\ pc = "pick2" /\ b' \in Small /\ pc' = "signs" /\ UNCHANGED <<a, A, B, d, flip, r, i, at>>
Decide(v, stage) == r' = v /\ at' = stage
Signs == /\ pc = "signs"
         /\ IF a.s # b.s THEN Decide(Cmp3(a.s, b.s), "signs") /\ pc' = "done"
            ELSE IF a.s = 0 THEN Decide(0, "signs") /\ pc' = "done"
            ELSE pc' = "scales" /\ UNCHANGED <<r, at>>
         /\ UNCHANGED <<a, b, A, B, d, flip, i>>
Scales == /\ pc = "scales"
          /\ IF a.sc >= b.sc THEN A' = ToInt(a.d) /\ B' = ToInt(b.d) /\ d' = a.sc - b.sc /\ flip' = FALSE
                              ELSE A' = ToInt(b.d) /\ B' = ToInt(a.d) /\ d' = b.sc - a.sc /\ flip' = TRUE
          /\ pc' = "zero-gap" /\ UNCHANGED <<a, b, r, i, at>>
ZeroGap == /\ pc = "zero-gap"
           /\ IF d = 0 THEN Decide(Cmp3(A, B), "zero-gap") /\ pc' = "fix" ELSE pc' = "bits" /\ UNCHANGED <<r, at>>
           /\ UNCHANGED <<a, b, A, B, d, flip, i>>
BitsStage == /\ pc = "bits"
             /\ IF Bits(A) < Bits(B) \/ Bits(A) < Bits(B) + Log2Scaled[d]
                  THEN Decide(-1, "bits") /\ pc' = "fix" ELSE pc' = "scalar1" /\ UNCHANGED <<r, at>>
             /\ UNCHANGED <<a, b, A, B, d, flip, i>>
\* try_from, checked_pow, checked_mul on integers below W
ScalarTry(W) == LET af == A < W
                    p == Pow10Tab[d + 1]
                    bf == B < W /\ p < W /\ B * p < W
                IN IF af /\ bf THEN <<TRUE, Cmp3(A, B * p)>>
                   ELSE IF af THEN <<TRUE, -1>>
                   ELSE IF bf THEN <<TRUE, 1>>
                   ELSE <<FALSE, 0>>
Scalar(stage, W, next) ==
  /\ pc = stage
  /\ LET t == ScalarTry(W) IN
     IF t[1] THEN Decide(t[2], stage) /\ pc' = "fix" ELSE pc' = next /\ UNCHANGED <<r, at>>
  /\ UNCHANGED <<a, b, A, B, d, flip, i>>
DA == NatOf(A)
DB == NatOf(B)
Count == /\ pc = "count"
         /\ LET c == Cmp3(Len(DA), Len(DB) + d) IN
            IF c # 0 THEN Decide(c, "count") /\ pc' = "fix" /\ i' = i
            ELSE pc' = "digit" /\ i' = 0 /\ UNCHANGED <<r, at>>
         /\ UNCHANGED <<a, b, A, B, d, flip>>
\* i digits consumed from the top of both strings (little-endian sequences: the top digit is the last element)
RestZero(ds, from) == \A j \in 1..from : ds[j] = 0
Digit == /\ pc = "digit"
         /\ LET ia == Len(DA) - i   ib == Len(DB) - i IN        \* index of the next digit of each string, 0 = exhausted
            IF ia >= 1 /\ ib >= 1 THEN
                 IF DA[ia] # DB[ib] THEN Decide(Cmp3(DA[ia], DB[ib]), "digit") /\ pc' = "fix" /\ i' = i
                 ELSE pc' = "digit" /\ i' = i + 1 /\ UNCHANGED <<r, at>>
            ELSE IF ia >= 1 THEN
                 /\ Decide(IF (Variant = "taken-digit-ignored" \/ DA[ia] = 0) /\ RestZero(DA, ia - 1) THEN 0 ELSE 1, "digit-tail")
                 /\ pc' = "fix" /\ i' = i
            ELSE IF ib >= 1 THEN
                 /\ Decide(IF (Variant = "taken-digit-ignored" \/ DB[ib] = 0) /\ RestZero(DB, ib - 1) THEN 0 ELSE -1, "digit-tail")
                 /\ pc' = "fix" /\ i' = i
            ELSE Decide(0, "digit-end") /\ pc' = "fix" /\ i' = i
         /\ UNCHANGED <<a, b, A, B, d, flip>>
Fix == /\ pc = "fix"
       /\ LET r1 == IF flip THEN -r ELSE r
              r2 == IF b.s = -1 THEN -r1 ELSE r1
          IN r' = r2
       /\ pc' = "done" /\ UNCHANGED <<a, b, A, B, d, flip, i, at>>
Next == Pick \/ Signs \/ Scales \/ ZeroGap \/ BitsStage \/ Scalar("scalar1", W1, "scalar2") \/ Scalar("scalar2", W2, "count")
        \/ Count \/ Digit \/ Fix
Spec == Init /\ [][Next]_vars

Right == pc = "done" => r = DCmp(a, b)
\* the prefilter is sound: it only ever says Less when A < B * 10^d
BitsSound == (pc = "fix" /\ at = "bits") => A < B * Pow10Tab[d + 1]
\* every stage of the pipeline decides some pair of the scope (checked by expected-violation runs of these)
NeverAtDigitTail == at # "digit-tail"
NeverAtCount == at # "count"
NeverAtScalar2 == at # "scalar2"
=============================================================================
