----------------------------- MODULE MC_Arith -----------------------------
(***************************************************************************)
(* Small-scope exhaustive model of exact arithmetic (C01) and of the       *)
(* representation operators (C18).  Every decimal with |unscaled| <= K at  *)
(* scales -2..2 is also a native TLC integer (value * 100), so the digit-  *)
(* sequence operators of the specification are checked against TLC's own   *)
(* arithmetic on every pair, together with the ring laws and the laws of   *)
(* normal forms.  Every pair of a smaller pool is printed as a behaviour:  *)
(* the harness runs it through all 386 spellings of + - *.                 *)
(***************************************************************************)
EXTENDS Wide, TLC, Json
CONSTANTS K, PRINTK
SC == 2
Scales == -SC..SC
VARIABLES a, b, ph
vars == <<a, b, ph>>
Small(k) == {Mk(sg, NatOf(n), sc) : n \in 0..k, sg \in {-1, 1}, sc \in Scales}
Init == ph = 0 /\ a = DZero /\ b = DZero
PickA == ph = 0 /\ a' \in Small(K) /\ b' = b /\ ph' = 1
PickB == ph = 1 /\ b' \in Small(K) /\ a' = a /\ ph' = 2
Next == PickA \/ PickB

Nat10(k) == Pow10Tab[k + 1]

Units(x) == x.s * ToInt(x.d) * Nat10(SC - x.sc)          \* value * 10^SC  (x.sc <= SC)
AgreesWithNative == ph = 2 =>
  /\ ValEq(DAdd(a, b), Mk(IF Units(a) + Units(b) < 0 THEN -1 ELSE 1, NatOf(AbsI(Units(a) + Units(b))), SC))
  /\ ValEq(DSub(a, b), Mk(IF Units(a) - Units(b) < 0 THEN -1 ELSE 1, NatOf(AbsI(Units(a) - Units(b))), SC))
  /\ DMul(a, b) = Mk(a.s * b.s, NatOf(ToInt(a.d) * ToInt(b.d)), a.sc + b.sc)
  /\ DCmp(a, b) = (IF Units(a) < Units(b) THEN -1 ELSE IF Units(a) = Units(b) THEN 0 ELSE 1)
Laws == ph = 2 =>
  /\ ValEq(DAdd(a, b), DAdd(b, a)) /\ ValEq(DMul(a, b), DMul(b, a))
  /\ ValEq(DSub(a, b), DNeg(DSub(b, a)))
  /\ ValEq(DAdd(DSub(a, b), b), a)                                       \* no digit is ever dropped
  /\ ValEq(DMul(a, DAdd(b, DOne)), DAdd(DMul(a, b), a))                  \* distributivity
  /\ ValEq(DAbs(DMul(a, b)), DMul(DAbs(a), DAbs(b)))
  /\ DAdd(a, b).sc = MaxI(a.sc, b.sc) /\ DMul(a, b).sc = a.sc + b.sc      \* mechanism: scale bookkeeping
  /\ ValEq(DAdd(Mk(a.s, NMulSmall(a.d, 5), a.sc + 1), Mk(a.s, NMulSmall(a.d, 5), a.sc + 1)), a)   \* half
\* C18: normal forms and exact rescaling
ReprLaws == ph = 2 =>
  /\ Norm(Norm(a)) = Norm(a) /\ ValEq(Norm(a), a)
  /\ (Norm(a).d # <<>> => Norm(a).d[1] # 0)                               \* no trailing zero digit
  /\ (ValEq(a, b) <=> Norm(a) = Norm(b))                                  \* equal decimals have identical normal forms
  /\ \A k \in 0..3 : ValEq(Rescale(a, a.sc + k), a) /\ Len(Rescale(a, a.sc + k).d) = (IF a.d = <<>> THEN 0 ELSE Len(a.d) + k)
  /\ WNorm(WMk(a.s, a.d, ZOfInt(a.sc))) = WMk(Norm(a).s, Norm(a).d, ZOfInt(Norm(a).sc))

Wire(y) == [s |-> y.s, l |-> IF y.d = <<>> THEN <<>> ELSE <<ToInt(y.d)>>, e |-> y.sc]
Emit == (ph = 2 /\ ToInt(a.d) \in PRINTK /\ ToInt(b.d) \in PRINTK) =>
   PrintT(<<"RUN", ToJson([gen |-> "arith_family", a |-> Wire(a), b |-> Wire(b)])>>)
=============================================================================
