INIT Init
NEXT Next
CHECK_DEADLOCK FALSE
INVARIANT Sane
