----------------------------- MODULE MC_Parse -----------------------------
(***************************************************************************)
(* Exhaustive string model for C05: every string of length <= L over the   *)
(* alphabet {0,1,7,+,-,.,e,E,_,x,space}.                                   *)
(*   GrammarVsAlgo : the grammar (what is a numeral, what it denotes) and  *)
(*                   the mechanism anchored in the code agree              *)
(*   Emit          : every numeral is a behaviour replayed on the crate    *)
(***************************************************************************)
EXTENDS Text, TLC, Json
CONSTANTS L

Alphabet == {48, 49, 55, 43, 45, 46, 101, 69, 95, 120, 32}
VARIABLE s
Init == s = <<>>
Next == Len(s) < L /\ \E c \in Alphabet : s' = Append(s, c)

GrammarVsAlgo == /\ IsNumeral(s) <=> AlgoAccept(s)
                 /\ (IsNumeral(s) => ParseValue(s) = AlgoValue(s))

\* C17: every JSON number is (syntactically) a numeral with the same meaning - the serde adapters can hand it to the parser
JsonSubset == IsJsonNumber(s) => Syntactic(s) /\ ~(\E i \in 1..Len(s) : s[i] = cUnd)

\* Every numeral is printed as a behaviour: the harness parses it through the four entry points and the
\* recorded outcomes are validated against ParseValue (numeral => accepted with the denoted value).
\* The converse (accepted => numeral, no panic) is decided on the trace of ALL accepted or panicking
\* strings of the same domain that the harness records by exhaustive enumeration.
Emit == IsNumeral(s) => PrintT(<<"RUN", ToJson([gen |-> "parse_all_apis", text |-> s])>>)
=============================================================================
