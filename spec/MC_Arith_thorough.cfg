INIT Init
NEXT Next
CHECK_DEADLOCK FALSE
INVARIANT AgreesWithNative
INVARIANT Laws
INVARIANT ReprLaws
INVARIANT Emit
CONSTANTS
  K = 200
  PRINTK = {0, 1, 2, 10, 99, 100}
