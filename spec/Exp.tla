-------------------------------- MODULE Exp --------------------------------
(***************************************************************************)
(* A rigorous enclosure [L, U] of e^|x| for C13, in fixed-point decimal    *)
(* arithmetic with directed rounding (every product and quotient is        *)
(* rounded down for L and up for U):                                       *)
(*   1. argument reduction  y = |x| / 2^m = |x| * 5^m * 10^-m  (exact in   *)
(*      decimal), m chosen so that y < 2^-8;                               *)
(*   2. Taylor sum of e^y until the upper term is below ten units; the     *)
(*      tail is then below one more unit (term ratio < 1/256);             *)
(*   3. m interval squarings.                                              *)
(* The result r of the crate is accepted iff [r - ulp, r + ulp] meets the  *)
(* enclosure (for x < 0: the enclosure of 1/e^|x|, tested by               *)
(* multiplication).  The enclosure is > 25 digits tighter than an ulp, so  *)
(* a correct result is never rejected and an error above 1 + 10^-25 ulp is *)
(* never accepted.                                                         *)
(***************************************************************************)
EXTENDS Decimal, TLC

\* fixed point: a BigNat N stands for N * 10^-S
FxOne(S) == Pow10(S)
AnyLowNonZero(a, k) == ~LowAllZero(a, k)
\* floor / ceiling of v * 10^-sh / k   (k a small native divisor)
FloorShDiv(v, sh, k) == NDivModSmall(Shr(v, sh), k)[1]
CeilShDiv(v, sh, k) ==
  LET c1 == IF AnyLowNonZero(v, sh) THEN NAdd(Shr(v, sh), One) ELSE Shr(v, sh)
      qr == NDivModSmall(c1, k)
  IN IF qr[2] = 0 THEN qr[1] ELSE NAdd(qr[1], One)

\* Taylor series of e^y, y = Y * 10^-ys < 2^-8; returns <<lower, upper>> in units of 10^-S
RECURSIVE TaylorLoop(_, _, _, _, _, _, _, _)
TaylorLoop(Y, ys, S, k, lo, hi, sumLo, sumHi) ==
  LET nlo == FloorShDiv(NMul(lo, Y), ys, k)
      nhi == CeilShDiv(NMul(hi, Y), ys, k)
  IN IF Len(nhi) <= 1                       \* upper term < 10 units: the remaining tail is < 1 unit
     THEN <<NAdd(sumLo, nlo), NAdd(NAdd(sumHi, nhi), Two)>>
     ELSE TaylorLoop(Y, ys, S, k + 1, TLCEval(nlo), TLCEval(nhi),
                     TLCEval(NAdd(sumLo, nlo)), TLCEval(NAdd(sumHi, nhi)))
RECURSIVE SquareLoop(_, _, _, _)
SquareLoop(m, S, lo, hi) ==
  IF m = 0 THEN <<lo, hi>>
  ELSE LET l2 == NMul(lo, lo)  h2 == NMul(hi, hi)
           nl == Shr(l2, S)
           nh == IF AnyLowNonZero(h2, S) THEN NAdd(Shr(h2, S), One) ELSE Shr(h2, S)
       IN SquareLoop(m - 1, S, TLCEval(nl), TLCEval(nh))
RECURSIVE Pow5(_)
Pow5(m) == IF m = 0 THEN One ELSE NMulSmall(Pow5(m - 1), 5)

\* number of halvings: |x| < 10^intd <= 2^(3.33 intd)  =>  |x| / 2^(4 intd + 10) < 2^-10
Halvings(X, xs) == 4 * MaxI(0, Len(X) - xs) + 10
\* fractional digits carried: precision + guard + loss by squaring (each squaring doubles the relative error)
FracDigitsFor(P, m) == P + 45 + ((m * 31) \div 100)
\* enclosure of e^(X * 10^-xs), X > 0
ExpEnclosure(X, xs, S) ==
  LET m == Halvings(X, xs)
      Y == NMul(X, Pow5(m))
      ys == xs + m
      t == TaylorLoop(Y, ys, S, 1, FxOne(S), FxOne(S), FxOne(S), FxOne(S))
  IN SquareLoop(m, S, t[1], t[2])

\* is r within one unit of its P-th significant digit of e^x ?   x # 0
ExpWithinOneUlp(x, P, r) ==
  LET m == Halvings(x.d, x.sc)
      S == FracDigitsFor(P, m)
      enc == ExpEnclosure(x.d, x.sc, S)
      L == Mk(1, enc[1], S)  U == Mk(1, enc[2], S)
      u == Ulp(-(Adj(r) - P + 1))
      rlo == DSub(r, u)  rhi == DAdd(r, u)
  IN IF x.s > 0 THEN DLe(rlo, U) /\ DLe(L, rhi)
     ELSE DLe(DMul(rlo, L), DOne) /\ DLe(DOne, DMul(rhi, U))
=============================================================================
