// Record the RUST_BIGDECIMAL_* environment the crate under test is being built with.
// (bigdecimal's own build.rs reads the same variables; C20 compares its behaviour with them.)
use std::env;
fn main() {
    for (name, default) in [
        ("RUST_BIGDECIMAL_DEFAULT_PRECISION", "100"),
        ("RUST_BIGDECIMAL_DEFAULT_ROUNDING_MODE", "HalfEven"),
        ("RUST_BIGDECIMAL_FMT_EXPONENTIAL_LOWER_THRESHOLD", "5"),
        ("RUST_BIGDECIMAL_FMT_EXPONENTIAL_UPPER_THRESHOLD", "15"),
        ("RUST_BIGDECIMAL_FMT_MAX_INTEGER_PADDING", "1000"),
        ("RUST_BIGDECIMAL_SERDE_SCALE_LIMIT", "150000"),
    ] {
        println!("cargo:rerun-if-env-changed={}", name);
        let v = env::var(name).unwrap_or_else(|_| default.to_string());
        println!("cargo:rustc-env=BDV_{}={}", name, v);
    }
}
