//! The operator-overload matrix: every spelling of + - * / % that exists in the crate,
//! addressed by a form name "<lhs>_<rhs>" or "assign_<rhs>".
//!
//! kinds:  val = BigDecimal, ref = &BigDecimal, dref = BigDecimalRef,
//!         bigint = BigInt, rbigint = &BigInt,
//!         i8..u128 = primitive by value, ri8..ru128 = &primitive, f32/f64/rf32/rf64
//! A form name is only a label for the specification; it tells it nothing about the expected value.

use bigdecimal::BigDecimal;
use num_bigint::BigInt;
use num_traits::ToPrimitive;
use serde_json::Value;

use crate::wire::*;

pub enum Arg {
    Dec(BigDecimal),
}

fn as_bigint(v: &Value) -> BigInt {
    assert_eq!(json_scale(v), 0, "integer operand must have scale 0");
    json_to_bigint(v)
}

macro_rules! prim_from {
    ($t:ty, $v:expr) => {{
        let n = as_bigint($v);
        let x: Option<$t> = if <$t>::MIN == 0 {
            n.to_u128().and_then(|u| <$t>::try_from(u).ok())
        } else {
            n.to_i128().and_then(|u| <$t>::try_from(u).ok())
        };
        x.expect("primitive operand out of range for its type")
    }};
}

/// forms where both operands are decimals
macro_rules! dd_forms {
    ($tr:ident, $m:ident, $form:expr, $a:expr, $b:expr; $($name:literal => ($l:tt, $r:tt)),* $(,)?) => {
        match $form {
            $( $name => { return Some(std::ops::$tr::$m(dd_forms!(@arg $l, $a), dd_forms!(@arg $r, $b))); } )*
            _ => {}
        }
    };
    (@arg val, $x:expr) => { $x.clone() };
    (@arg ref, $x:expr) => { &$x };
    (@arg dref, $x:expr) => { $x.to_ref() };
}

macro_rules! assign_form {
    ($tr:ident, $m:ident, $a:expr, $rhs:expr) => {{
        let mut acc = $a.clone();
        std::ops::$tr::$m(&mut acc, $rhs);
        return Some(acc);
    }};
}

/// forms with one primitive (or BigInt) operand; $conv builds the primitive from the wire value
macro_rules! prim_forms_lhs_dec {
    // decimal (val/ref/dref) OP prim
    ($tr:ident, $m:ident, $form:expr, $tyname:literal, $a:expr, $p:expr; $($kind:ident),*) => {
        $(
            if $form == concat!(stringify!($kind), "_", $tyname) {
                return Some(std::ops::$tr::$m(dd_forms!(@arg $kind, $a), $p));
            }
            if $form == concat!(stringify!($kind), "_r", $tyname) {
                return Some(std::ops::$tr::$m(dd_forms!(@arg $kind, $a), &$p));
            }
        )*
    };
}
macro_rules! prim_forms_rhs_dec {
    // prim OP decimal (val/ref/dref)
    ($tr:ident, $m:ident, $form:expr, $tyname:literal, $p:expr, $b:expr; $($kind:ident),*) => {
        $(
            if $form == concat!($tyname, "_", stringify!($kind)) {
                return Some(std::ops::$tr::$m($p, dd_forms!(@arg $kind, $b)));
            }
            if $form == concat!("r", $tyname, "_", stringify!($kind)) {
                return Some(std::ops::$tr::$m(&$p, dd_forms!(@arg $kind, $b)));
            }
        )*
    };
}

macro_rules! for_int_types {
    ($mac:ident ! ($($args:tt)*)) => {
        $mac!(i8, "i8", $($args)*); $mac!(i16, "i16", $($args)*); $mac!(i32, "i32", $($args)*);
        $mac!(i64, "i64", $($args)*); $mac!(i128, "i128", $($args)*);
        $mac!(u8, "u8", $($args)*); $mac!(u16, "u16", $($args)*); $mac!(u32, "u32", $($args)*);
        $mac!(u64, "u64", $($args)*); $mac!(u128, "u128", $($args)*);
    };
}

pub const INT_TYPES: [&str; 10] = ["i8", "i16", "i32", "i64", "i128", "u8", "u16", "u32", "u64", "u128"];

/// which operand of a form is a non-decimal (returns type name)
pub fn form_kinds(form: &str) -> (String, String) {
    let (l, r) = form.split_once('_').expect("form");
    (l.to_string(), r.to_string())
}
pub fn is_dec_kind(k: &str) -> bool {
    matches!(k, "val" | "ref" | "dref" | "assign")
}

// ------------------------------------------------------------------ ADD
pub fn add(form: &str, av: &Value, bv: &Value) -> Option<BigDecimal> {
    let (lk, rk) = form_kinds(form);
    if is_dec_kind(&lk) && is_dec_kind(&rk) {
        let a = json_to_dec(av);
        let b = json_to_dec(bv);
        dd_forms!(Add, add, form, a, b;
            "val_val" => (val, val), "val_ref" => (val, ref), "val_dref" => (val, dref),
            "ref_val" => (ref, val), "ref_ref" => (ref, ref), "ref_dref" => (ref, dref),
            "dref_val" => (dref, val), "dref_ref" => (dref, ref), "dref_dref" => (dref, dref));
        match form {
            "assign_val" => assign_form!(AddAssign, add_assign, a, b.clone()),
            "assign_ref" => assign_form!(AddAssign, add_assign, a, &b),
            "assign_dref" => assign_form!(AddAssign, add_assign, a, b.to_ref()),
            _ => return None,
        }
    }
    if is_dec_kind(&lk) {
        let a = json_to_dec(av);
        if rk == "bigint" || rk == "rbigint" {
            let p = as_bigint(bv);
            match form {
                "val_bigint" => return Some(a.clone() + p),
                "ref_bigint" => return Some(&a + p),
                "dref_bigint" => return Some(a.to_ref() + p),
                "val_rbigint" => return Some(a.clone() + &p),
                "ref_rbigint" => return Some(&a + &p),
                "dref_rbigint" => return Some(a.to_ref() + &p),
                "assign_bigint" => assign_form!(AddAssign, add_assign, a, p),
                "assign_rbigint" => assign_form!(AddAssign, add_assign, a, &p),
                _ => return None,
            }
        }
        macro_rules! arm {
            ($t:ty, $n:literal, ) => {
                if rk == $n || rk == concat!("r", $n) {
                    let p: $t = prim_from!($t, bv);
                    prim_forms_lhs_dec!(Add, add, form, $n, a, p; val, ref, dref);
                    if form == concat!("assign_", $n) { assign_form!(AddAssign, add_assign, a, p) }
                    if form == concat!("assign_r", $n) { assign_form!(AddAssign, add_assign, a, &p) }
                    return None;
                }
            };
        }
        for_int_types!(arm!());
        return None;
    }
    let b = json_to_dec(bv);
    if lk == "bigint" || lk == "rbigint" {
        let p = as_bigint(av);
        match form {
            "bigint_val" => return Some(p + b.clone()),
            "bigint_ref" => return Some(p + &b),
            "bigint_dref" => return Some(p + b.to_ref()),
            "rbigint_val" => return Some(&p + b.clone()),
            "rbigint_ref" => return Some(&p + &b),
            "rbigint_dref" => return Some(&p + b.to_ref()),
            _ => return None,
        }
    }
    macro_rules! arm2 {
        ($t:ty, $n:literal, ) => {
            if lk == $n || lk == concat!("r", $n) {
                let p: $t = prim_from!($t, av);
                prim_forms_rhs_dec!(Add, add, form, $n, p, b; val, ref);
                return None;
            }
        };
    }
    for_int_types!(arm2!());
    None
}

// ------------------------------------------------------------------ SUB
pub fn sub(form: &str, av: &Value, bv: &Value) -> Option<BigDecimal> {
    let (lk, rk) = form_kinds(form);
    if is_dec_kind(&lk) && is_dec_kind(&rk) {
        let a = json_to_dec(av);
        let b = json_to_dec(bv);
        dd_forms!(Sub, sub, form, a, b;
            "val_val" => (val, val), "val_ref" => (val, ref), "val_dref" => (val, dref),
            "ref_val" => (ref, val), "ref_ref" => (ref, ref), "ref_dref" => (ref, dref),
            "dref_val" => (dref, val), "dref_ref" => (dref, ref), "dref_dref" => (dref, dref));
        match form {
            "assign_val" => assign_form!(SubAssign, sub_assign, a, b.clone()),
            "assign_ref" => assign_form!(SubAssign, sub_assign, a, &b),
            "assign_dref" => assign_form!(SubAssign, sub_assign, a, b.to_ref()),
            _ => return None,
        }
    }
    if is_dec_kind(&lk) {
        let a = json_to_dec(av);
        if rk == "bigint" || rk == "rbigint" {
            let p = as_bigint(bv);
            match form {
                "val_bigint" => return Some(a.clone() - p),
                "ref_bigint" => return Some(&a - p),
                "dref_bigint" => return Some(a.to_ref() - p),
                "val_rbigint" => return Some(a.clone() - &p),
                "ref_rbigint" => return Some(&a - &p),
                "dref_rbigint" => return Some(a.to_ref() - &p),
                "assign_bigint" => assign_form!(SubAssign, sub_assign, a, p),
                "assign_rbigint" => assign_form!(SubAssign, sub_assign, a, &p),
                _ => return None,
            }
        }
        macro_rules! arm {
            ($t:ty, $n:literal, ) => {
                if rk == $n || rk == concat!("r", $n) {
                    let p: $t = prim_from!($t, bv);
                    prim_forms_lhs_dec!(Sub, sub, form, $n, a, p; val, ref);
                    if form == concat!("assign_", $n) { assign_form!(SubAssign, sub_assign, a, p) }
                    if form == concat!("assign_r", $n) { assign_form!(SubAssign, sub_assign, a, &p) }
                    return None;
                }
            };
        }
        for_int_types!(arm!());
        return None;
    }
    let b = json_to_dec(bv);
    if lk == "bigint" || lk == "rbigint" {
        let p = as_bigint(av);
        match form {
            "bigint_val" => return Some(p - b.clone()),
            "bigint_dref" => return Some(p - b.to_ref()),
            "rbigint_val" => return Some(&p - b.clone()),
            "rbigint_dref" => return Some(&p - b.to_ref()),
            _ => return None,
        }
    }
    macro_rules! arm2 {
        ($t:ty, $n:literal, ) => {
            if lk == $n || lk == concat!("r", $n) {
                let p: $t = prim_from!($t, av);
                prim_forms_rhs_dec!(Sub, sub, form, $n, p, b; val, ref);
                return None;
            }
        };
    }
    for_int_types!(arm2!());
    None
}

// ------------------------------------------------------------------ MUL
pub fn mul(form: &str, av: &Value, bv: &Value) -> Option<BigDecimal> {
    let (lk, rk) = form_kinds(form);
    if is_dec_kind(&lk) && is_dec_kind(&rk) {
        let a = json_to_dec(av);
        let b = json_to_dec(bv);
        dd_forms!(Mul, mul, form, a, b;
            "val_val" => (val, val), "val_ref" => (val, ref),
            "ref_val" => (ref, val), "ref_ref" => (ref, ref));
        match form {
            "assign_val" => assign_form!(MulAssign, mul_assign, a, b.clone()),
            "assign_ref" => assign_form!(MulAssign, mul_assign, a, &b),
            _ => return None,
        }
    }
    if is_dec_kind(&lk) {
        let a = json_to_dec(av);
        if rk == "bigint" || rk == "rbigint" {
            let p = as_bigint(bv);
            match form {
                "val_bigint" => return Some(a.clone() * p),
                "ref_bigint" => return Some(&a * p),
                "val_rbigint" => return Some(a.clone() * &p),
                "ref_rbigint" => return Some(&a * &p),
                "assign_bigint" => assign_form!(MulAssign, mul_assign, a, p),
                "assign_rbigint" => assign_form!(MulAssign, mul_assign, a, &p),
                _ => return None,
            }
        }
        macro_rules! arm {
            ($t:ty, $n:literal, ) => {
                if rk == $n || rk == concat!("r", $n) {
                    let p: $t = prim_from!($t, bv);
                    prim_forms_lhs_dec!(Mul, mul, form, $n, a, p; val, ref);
                    if form == concat!("assign_", $n) { assign_form!(MulAssign, mul_assign, a, p) }
                    if form == concat!("assign_r", $n) { assign_form!(MulAssign, mul_assign, a, &p) }
                    return None;
                }
            };
        }
        for_int_types!(arm!());
        return None;
    }
    let b = json_to_dec(bv);
    if lk == "bigint" || lk == "rbigint" {
        let p = as_bigint(av);
        match form {
            "bigint_val" => return Some(p * b.clone()),
            "bigint_ref" => return Some(p * &b),
            "rbigint_val" => return Some(&p * b.clone()),
            "rbigint_ref" => return Some(&p * &b),
            _ => return None,
        }
    }
    macro_rules! arm2 {
        ($t:ty, $n:literal, ) => {
            if lk == $n || lk == concat!("r", $n) {
                let p: $t = prim_from!($t, av);
                prim_forms_rhs_dec!(Mul, mul, form, $n, p, b; val, ref);
                return None;
            }
        };
    }
    for_int_types!(arm2!());
    None
}

// ------------------------------------------------------------------ DIV
/// float operands travel as {"bits": <u64 as big integer>, "w": 32|64}
pub fn f64_of(v: &Value) -> f64 {
    f64::from_bits(json_to_bigint(&v["bits"]).to_u64().expect("f64 bits"))
}
pub fn f32_of(v: &Value) -> f32 {
    f32::from_bits(json_to_bigint(&v["bits"]).to_u32().expect("f32 bits"))
}

pub fn div(form: &str, av: &Value, bv: &Value) -> Option<BigDecimal> {
    let (lk, rk) = form_kinds(form);
    if is_dec_kind(&lk) && is_dec_kind(&rk) {
        let a = json_to_dec(av);
        let b = json_to_dec(bv);
        dd_forms!(Div, div, form, a, b;
            "val_val" => (val, val), "val_ref" => (val, ref),
            "ref_val" => (ref, val), "ref_ref" => (ref, ref));
        return None;
    }
    if is_dec_kind(&lk) {
        let a = json_to_dec(av);
        macro_rules! arm {
            ($t:ty, $n:literal, ) => {
                if rk == $n || rk == concat!("r", $n) {
                    let p: $t = prim_from!($t, bv);
                    if form == concat!("val_", $n) { return Some(a.clone() / p); }
                    if form == concat!("ref_", $n) { return Some(&a / p); }
                    if form == concat!("val_r", $n) { return Some(a.clone() / &p); }
                    if form == concat!("assign_", $n) { assign_form!(DivAssign, div_assign, a, p) }
                    if form == concat!("assign_r", $n) { assign_form!(DivAssign, div_assign, a, &p) }
                    return None;
                }
            };
        }
        for_int_types!(arm!());
        macro_rules! farm {
            ($t:ty, $n:literal, $conv:ident) => {
                if rk == $n || rk == concat!("r", $n) {
                    let p: $t = $conv(bv);
                    if form == concat!("val_", $n) { return Some(a.clone() / p); }
                    if form == concat!("ref_", $n) { return Some(&a / p); }
                    if form == concat!("val_r", $n) { return Some(a.clone() / &p); }
                    if form == concat!("assign_", $n) { assign_form!(DivAssign, div_assign, a, p) }
                    if form == concat!("assign_r", $n) { assign_form!(DivAssign, div_assign, a, &p) }
                    return None;
                }
            };
        }
        farm!(f32, "f32", f32_of);
        farm!(f64, "f64", f64_of);
        return None;
    }
    let b = json_to_dec(bv);
    macro_rules! arm2 {
        ($t:ty, $n:literal, ) => {
            if lk == $n || lk == concat!("r", $n) {
                let p: $t = prim_from!($t, av);
                if form == concat!($n, "_val") { return Some(p / b.clone()); }
                if form == concat!($n, "_ref") { return Some(p / &b); }
                if form == concat!("r", $n, "_val") { return Some(&p / b.clone()); }
                if form == concat!("r", $n, "_ref") { return Some(&p / &b); }
                return None;
            }
        };
    }
    for_int_types!(arm2!());
    macro_rules! farm2 {
        ($t:ty, $n:literal, $conv:ident) => {
            if lk == $n || lk == concat!("r", $n) {
                let p: $t = $conv(av);
                if form == concat!($n, "_val") { return Some(p / b.clone()); }
                if form == concat!($n, "_ref") { return Some(p / &b); }
                if form == concat!("r", $n, "_val") { return Some(&p / b.clone()); }
                if form == concat!("r", $n, "_ref") { return Some(&p / &b); }
                return None;
            }
        };
    }
    farm2!(f32, "f32", f32_of);
    farm2!(f64, "f64", f64_of);
    None
}

// ------------------------------------------------------------------ REM
pub fn rem(form: &str, av: &Value, bv: &Value) -> Option<BigDecimal> {
    let a = json_to_dec(av);
    let b = json_to_dec(bv);
    dd_forms!(Rem, rem, form, a, b;
        "val_val" => (val, val), "val_ref" => (val, ref),
        "ref_val" => (ref, val), "ref_ref" => (ref, ref));
    match form {
        "assign_ref" => assign_form!(RemAssign, rem_assign, a, &b),
        _ => None,
    }
}

/// every form name the harness can execute, per operator (compared with the specification's list)
pub fn all_forms(op: &str) -> Vec<String> {
    let dec_l = ["val", "ref", "dref"];
    let mut kinds: Vec<String> = vec!["val", "ref", "dref", "bigint", "rbigint", "assign"].iter().map(|s| s.to_string()).collect();
    for t in INT_TYPES.iter().chain(["f32", "f64"].iter()) {
        kinds.push(t.to_string());
        kinds.push(format!("r{}", t));
    }
    let _ = dec_l;
    let one = crate::wire::dec_json_from_digits(false, "3", 0);
    let onef = serde_json::json!({"bits": {"s": 1, "l": [613566756, 4]}, "w": 0}); // placeholder, replaced below
    let _ = onef;
    let mut out = vec![];
    for l in &kinds {
        for r in &kinds {
            if l == "assign" && r == "assign" { continue; }
            if r == "assign" { continue; }
            let form = format!("{}_{}", l, r);
            let fl = |k: &str| -> Value {
                if k.ends_with("f32") {
                    serde_json::json!({"bits": crate::wire::u128_to_json(3.0f32.to_bits() as u128)})
                } else if k.ends_with("f64") {
                    serde_json::json!({"bits": crate::wire::u128_to_json(3.0f64.to_bits() as u128)})
                } else {
                    one.clone()
                }
            };
            if !is_dec_kind(l) && !is_dec_kind(r) { continue; }
            let a = fl(l);
            let b = fl(r);
            let is_float = l.ends_with("f32") || l.ends_with("f64") || r.ends_with("f32") || r.ends_with("f64");
            if is_float && op != "div" { continue; }
            let res = match op {
                "add" => add(&form, &a, &b),
                "sub" => sub(&form, &a, &b),
                "mul" => mul(&form, &a, &b),
                "div" => div(&form, &a, &b),
                "rem" => {
                    if is_dec_kind(l) && is_dec_kind(r) { rem(&form, &a, &b) } else { None }
                }
                _ => None,
            };
            if res.is_some() {
                out.push(form);
            }
        }
    }
    out
}
