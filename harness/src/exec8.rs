//! Serde (C17): default string form, JSON-number adapters, token streams
use std::fmt::Display;

use bigdecimal::BigDecimal;
use serde::de::value::{BoolDeserializer, BytesDeserializer, CharDeserializer, UnitDeserializer, Error as ValueError, F32Deserializer, F64Deserializer, I128Deserializer, I16Deserializer, I32Deserializer, I64Deserializer, I8Deserializer, StrDeserializer, StringDeserializer, U128Deserializer, U16Deserializer, U32Deserializer, U64Deserializer, U8Deserializer};
use serde::de::IntoDeserializer;
use serde::{Deserialize, Serialize};
use serde_json::{json, Value};
use num_traits::ToPrimitive;

use crate::wire::*;

#[derive(Serialize, Deserialize)]
struct JsonNum {
    #[serde(with = "bigdecimal::serde::json_num")]
    v: BigDecimal,
}
#[derive(Serialize, Deserialize)]
struct JsonNumOpt {
    #[serde(with = "bigdecimal::serde::json_num_option")]
    v: Option<BigDecimal>,
}

/// A Serializer that records the single string token BigDecimal emits (everything else is an error)
struct StrRecorder;
#[derive(Debug)]
struct RecErr(String);
impl Display for RecErr {
    fn fmt(&self, f: &mut std::fmt::Formatter) -> std::fmt::Result { write!(f, "{}", self.0) }
}
impl std::error::Error for RecErr {}
impl serde::ser::Error for RecErr {
    fn custom<T: Display>(msg: T) -> Self { RecErr(msg.to_string()) }
}
macro_rules! unsupported {
    ($($f:ident($t:ty)),*) => { $( fn $f(self, _v: $t) -> Result<String, RecErr> { Err(RecErr(concat!("unexpected token ", stringify!($f)).into())) } )* };
}
impl serde::Serializer for StrRecorder {
    type Ok = String;
    type Error = RecErr;
    type SerializeSeq = serde::ser::Impossible<String, RecErr>;
    type SerializeTuple = serde::ser::Impossible<String, RecErr>;
    type SerializeTupleStruct = serde::ser::Impossible<String, RecErr>;
    type SerializeTupleVariant = serde::ser::Impossible<String, RecErr>;
    type SerializeMap = serde::ser::Impossible<String, RecErr>;
    type SerializeStruct = serde::ser::Impossible<String, RecErr>;
    type SerializeStructVariant = serde::ser::Impossible<String, RecErr>;
    fn serialize_str(self, v: &str) -> Result<String, RecErr> { Ok(v.to_string()) }
    unsupported!(serialize_bool(bool), serialize_i8(i8), serialize_i16(i16), serialize_i32(i32), serialize_i64(i64),
                 serialize_u8(u8), serialize_u16(u16), serialize_u32(u32), serialize_u64(u64), serialize_f32(f32), serialize_f64(f64),
                 serialize_char(char), serialize_bytes(&[u8]));
    fn serialize_none(self) -> Result<String, RecErr> { Err(RecErr("none".into())) }
    fn serialize_some<T: ?Sized + Serialize>(self, _v: &T) -> Result<String, RecErr> { Err(RecErr("some".into())) }
    fn serialize_unit(self) -> Result<String, RecErr> { Err(RecErr("unit".into())) }
    fn serialize_unit_struct(self, _n: &'static str) -> Result<String, RecErr> { Err(RecErr("unit_struct".into())) }
    fn serialize_unit_variant(self, _n: &'static str, _i: u32, _v: &'static str) -> Result<String, RecErr> { Err(RecErr("unit_variant".into())) }
    fn serialize_newtype_struct<T: ?Sized + Serialize>(self, _n: &'static str, _v: &T) -> Result<String, RecErr> { Err(RecErr("newtype".into())) }
    fn serialize_newtype_variant<T: ?Sized + Serialize>(self, _n: &'static str, _i: u32, _v: &'static str, _x: &T) -> Result<String, RecErr> { Err(RecErr("newtype_variant".into())) }
    fn serialize_seq(self, _l: Option<usize>) -> Result<Self::SerializeSeq, RecErr> { Err(RecErr("seq".into())) }
    fn serialize_tuple(self, _l: usize) -> Result<Self::SerializeTuple, RecErr> { Err(RecErr("tuple".into())) }
    fn serialize_tuple_struct(self, _n: &'static str, _l: usize) -> Result<Self::SerializeTupleStruct, RecErr> { Err(RecErr("tuple_struct".into())) }
    fn serialize_tuple_variant(self, _n: &'static str, _i: u32, _v: &'static str, _l: usize) -> Result<Self::SerializeTupleVariant, RecErr> { Err(RecErr("tuple_variant".into())) }
    fn serialize_map(self, _l: Option<usize>) -> Result<Self::SerializeMap, RecErr> { Err(RecErr("map".into())) }
    fn serialize_struct(self, _n: &'static str, _l: usize) -> Result<Self::SerializeStruct, RecErr> { Err(RecErr("struct".into())) }
    fn serialize_struct_variant(self, _n: &'static str, _i: u32, _v: &'static str, _l: usize) -> Result<Self::SerializeStructVariant, RecErr> { Err(RecErr("struct_variant".into())) }
}

fn dres<E: Display>(r: Result<BigDecimal, E>) -> Value {
    match r {
        Ok(x) => json!({"d": dec_to_json(&x)}),
        Err(e) => { let _ = e.to_string(); json!({"err": "de"}) }
    }
}
fn ores<E: Display>(r: Result<Option<BigDecimal>, E>) -> Value {
    match r {
        Ok(Some(x)) => json!({"d": dec_to_json(&x)}),
        Ok(None) => json!({"none": 1}),
        Err(e) => { let _ = e.to_string(); json!({"err": "de"}) }
    }
}

pub fn exec_more(ev: &Value) -> Value {
    let op = ev["op"].as_str().expect("op");
    let form = ev.get("form").and_then(|f| f.as_str()).unwrap_or("");
    match op {
        // serialize, record the document, deserialize it again
        "serde_roundtrip" => {
            let a = json_to_dec(&ev["a"]);
            match form {
                "json_string" => match serde_json::to_string(&a) {
                    Err(_) => json!({"ser_err": 1}),
                    Ok(doc) => json!({"doc": text_to_json(&doc), "back": dres(serde_json::from_str::<BigDecimal>(&doc))}),
                },
                "json_value" => match serde_json::to_value(&a) {
                    Err(_) => json!({"ser_err": 1}),
                    Ok(v) => { let doc = v.to_string(); json!({"doc": text_to_json(&doc), "back": dres(serde_json::from_value::<BigDecimal>(v))}) }
                },
                "token" => match a.serialize(StrRecorder) {
                    Err(_) => json!({"ser_err": 1}),
                    Ok(s) => {
                        let de: StrDeserializer<ValueError> = s.as_str().into_deserializer();
                        json!({"doc": text_to_json(&format!("\"{}\"", s)), "back": dres(BigDecimal::deserialize(de))})
                    }
                },
                "json_num" => match serde_json::to_string(&JsonNum { v: a.clone() }) {
                    Err(_) => json!({"ser_err": 1}),
                    Ok(doc) => json!({"doc": text_to_json(&doc), "back": dres(serde_json::from_str::<JsonNum>(&doc).map(|w| w.v))}),
                },
                "json_num_option" => match serde_json::to_string(&JsonNumOpt { v: Some(a.clone()) }) {
                    Err(_) => json!({"ser_err": 1}),
                    Ok(doc) => json!({"doc": text_to_json(&doc), "back": ores(serde_json::from_str::<JsonNumOpt>(&doc).map(|w| w.v))}),
                },
                _ => panic!("HARNESS: unknown serde_roundtrip form {}", form),
            }
        }
        "serde_none" => match serde_json::to_string(&JsonNumOpt { v: None }) {
            Err(_) => json!({"ser_err": 1}),
            Ok(doc) => json!({"doc": text_to_json(&doc), "back": ores(serde_json::from_str::<JsonNumOpt>(&doc).map(|w| w.v))}),
        },
        // deserialize a JSON document (the value position of the wrapper for the adapters)
        "de_json" => {
            let doc = json_to_text(&ev["doc"]);
            match form {
                "plain" => dres(serde_json::from_str::<BigDecimal>(&doc)),
                "plain_value" => match serde_json::from_str::<serde_json::Value>(&doc) {
                    Ok(v) => dres(serde_json::from_value::<BigDecimal>(v)),
                    Err(_) => json!({"err": "json"}),
                },
                "json_num" => dres(serde_json::from_str::<JsonNum>(&format!("{{\"v\":{}}}", doc)).map(|w| w.v)),
                "json_num_option" => ores(serde_json::from_str::<JsonNumOpt>(&format!("{{\"v\":{}}}", doc)).map(|w| w.v)),
                _ => panic!("HARNESS: unknown de_json form {}", form),
            }
        }
        // tokens handed over by other formats
        "de_token" => {
            let ty = ev["ty"].as_str().expect("ty");
            macro_rules! int_tok {
                ($t:ty, $d:ident, $conv:ident) => {{
                    let v = json_to_bigint(&ev["v"]).$conv().and_then(|x| <$t>::try_from(x).ok()).expect("token value in range");
                    let de: $d<ValueError> = v.into_deserializer();
                    dres(BigDecimal::deserialize(de))
                }};
            }
            match ty {
                "i8" => int_tok!(i8, I8Deserializer, to_i128), "i16" => int_tok!(i16, I16Deserializer, to_i128),
                "i32" => int_tok!(i32, I32Deserializer, to_i128), "i64" => int_tok!(i64, I64Deserializer, to_i128),
                "i128" => int_tok!(i128, I128Deserializer, to_i128),
                "u8" => int_tok!(u8, U8Deserializer, to_u128), "u16" => int_tok!(u16, U16Deserializer, to_u128),
                "u32" => int_tok!(u32, U32Deserializer, to_u128), "u64" => int_tok!(u64, U64Deserializer, to_u128),
                "u128" => int_tok!(u128, U128Deserializer, to_u128),
                "f32" => { let f = f32::from_bits(json_to_bigint(&ev["bits"]).to_u32().unwrap()); let de: F32Deserializer<ValueError> = f.into_deserializer(); dres(BigDecimal::deserialize(de)) }
                "f64" => { let f = f64::from_bits(json_to_bigint(&ev["bits"]).to_u64().unwrap()); let de: F64Deserializer<ValueError> = f.into_deserializer(); dres(BigDecimal::deserialize(de)) }
                "str" => { let s = json_to_text(&ev["text"]); let de: StrDeserializer<ValueError> = s.as_str().into_deserializer(); dres(BigDecimal::deserialize(de)) }
                "string" => { let s = json_to_text(&ev["text"]); let de: StringDeserializer<ValueError> = s.into_deserializer(); dres(BigDecimal::deserialize(de)) }
                // tokens a decimal cannot be made of: an error value, never a panic
                "bool" => { let de: BoolDeserializer<ValueError> = true.into_deserializer(); dres(BigDecimal::deserialize(de)) }
                "char" => { let de: CharDeserializer<ValueError> = '7'.into_deserializer(); dres(BigDecimal::deserialize(de)) }
                "unit" => { let de: UnitDeserializer<ValueError> = ().into_deserializer(); dres(BigDecimal::deserialize(de)) }
                "bytes" => { let b: &[u8] = b"12.5"; let de: BytesDeserializer<ValueError> = BytesDeserializer::new(b); dres(BigDecimal::deserialize(de)) }
                _ => panic!("HARNESS: unknown token type {}", ty),
            }
        }
        _ => crate::exec9::exec_more(ev),
    }
}
