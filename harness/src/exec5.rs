//! Formatting (C04, C16): every renderer, on values and references, with precision and flags.
//! Flag strings: [[fill]align][+][0]; width and precision are runtime parameters.
use std::fmt;
use std::str::FromStr;

use bigdecimal::BigDecimal;
use serde_json::{json, Value};

use crate::wire::*;

pub const FLAG_NAMES: [&str; 36] = ["", "0", "+", "+0", "<", "<0", "<+", "<+0", "^", "^0", "^+", "^+0", ">", ">0", ">+", ">+0", "*<", "*<0", "*<+", "*<+0", "*^", "*^0", "*^+", "*^+0", "*>", "*>0", "*>+", "*>+0", "0<", "0<0", "0<+", "0<+0", "#>", "#>0", "#>+", "#>+0"];

fn fmt_w<T: fmt::Display + fmt::LowerExp + fmt::UpperExp>(flags: &str, x: &T, w: usize) -> String {
    match flags {
        "" => format!(concat!("{:", "", "w$}"), x, w = w),
        "0" => format!(concat!("{:", "0", "w$}"), x, w = w),
        "+" => format!(concat!("{:", "+", "w$}"), x, w = w),
        "+0" => format!(concat!("{:", "+0", "w$}"), x, w = w),
        "<" => format!(concat!("{:", "<", "w$}"), x, w = w),
        "<0" => format!(concat!("{:", "<0", "w$}"), x, w = w),
        "<+" => format!(concat!("{:", "<+", "w$}"), x, w = w),
        "<+0" => format!(concat!("{:", "<+0", "w$}"), x, w = w),
        "^" => format!(concat!("{:", "^", "w$}"), x, w = w),
        "^0" => format!(concat!("{:", "^0", "w$}"), x, w = w),
        "^+" => format!(concat!("{:", "^+", "w$}"), x, w = w),
        "^+0" => format!(concat!("{:", "^+0", "w$}"), x, w = w),
        ">" => format!(concat!("{:", ">", "w$}"), x, w = w),
        ">0" => format!(concat!("{:", ">0", "w$}"), x, w = w),
        ">+" => format!(concat!("{:", ">+", "w$}"), x, w = w),
        ">+0" => format!(concat!("{:", ">+0", "w$}"), x, w = w),
        "*<" => format!(concat!("{:", "*<", "w$}"), x, w = w),
        "*<0" => format!(concat!("{:", "*<0", "w$}"), x, w = w),
        "*<+" => format!(concat!("{:", "*<+", "w$}"), x, w = w),
        "*<+0" => format!(concat!("{:", "*<+0", "w$}"), x, w = w),
        "*^" => format!(concat!("{:", "*^", "w$}"), x, w = w),
        "*^0" => format!(concat!("{:", "*^0", "w$}"), x, w = w),
        "*^+" => format!(concat!("{:", "*^+", "w$}"), x, w = w),
        "*^+0" => format!(concat!("{:", "*^+0", "w$}"), x, w = w),
        "*>" => format!(concat!("{:", "*>", "w$}"), x, w = w),
        "*>0" => format!(concat!("{:", "*>0", "w$}"), x, w = w),
        "*>+" => format!(concat!("{:", "*>+", "w$}"), x, w = w),
        "*>+0" => format!(concat!("{:", "*>+0", "w$}"), x, w = w),
        "0<" => format!(concat!("{:", "0<", "w$}"), x, w = w),
        "0<0" => format!(concat!("{:", "0<0", "w$}"), x, w = w),
        "0<+" => format!(concat!("{:", "0<+", "w$}"), x, w = w),
        "0<+0" => format!(concat!("{:", "0<+0", "w$}"), x, w = w),
        "#>" => format!(concat!("{:", "#>", "w$}"), x, w = w),
        "#>0" => format!(concat!("{:", "#>0", "w$}"), x, w = w),
        "#>+" => format!(concat!("{:", "#>+", "w$}"), x, w = w),
        "#>+0" => format!(concat!("{:", "#>+0", "w$}"), x, w = w),
        _ => panic!("HARNESS: unknown format flags {}", flags),
    }
}
fn fmt_wp<T: fmt::Display + fmt::LowerExp + fmt::UpperExp>(flags: &str, x: &T, w: usize, p: usize) -> String {
    match flags {
        "" => format!(concat!("{:", "", "w$.p$}"), x, w = w, p = p),
        "0" => format!(concat!("{:", "0", "w$.p$}"), x, w = w, p = p),
        "+" => format!(concat!("{:", "+", "w$.p$}"), x, w = w, p = p),
        "+0" => format!(concat!("{:", "+0", "w$.p$}"), x, w = w, p = p),
        "<" => format!(concat!("{:", "<", "w$.p$}"), x, w = w, p = p),
        "<0" => format!(concat!("{:", "<0", "w$.p$}"), x, w = w, p = p),
        "<+" => format!(concat!("{:", "<+", "w$.p$}"), x, w = w, p = p),
        "<+0" => format!(concat!("{:", "<+0", "w$.p$}"), x, w = w, p = p),
        "^" => format!(concat!("{:", "^", "w$.p$}"), x, w = w, p = p),
        "^0" => format!(concat!("{:", "^0", "w$.p$}"), x, w = w, p = p),
        "^+" => format!(concat!("{:", "^+", "w$.p$}"), x, w = w, p = p),
        "^+0" => format!(concat!("{:", "^+0", "w$.p$}"), x, w = w, p = p),
        ">" => format!(concat!("{:", ">", "w$.p$}"), x, w = w, p = p),
        ">0" => format!(concat!("{:", ">0", "w$.p$}"), x, w = w, p = p),
        ">+" => format!(concat!("{:", ">+", "w$.p$}"), x, w = w, p = p),
        ">+0" => format!(concat!("{:", ">+0", "w$.p$}"), x, w = w, p = p),
        "*<" => format!(concat!("{:", "*<", "w$.p$}"), x, w = w, p = p),
        "*<0" => format!(concat!("{:", "*<0", "w$.p$}"), x, w = w, p = p),
        "*<+" => format!(concat!("{:", "*<+", "w$.p$}"), x, w = w, p = p),
        "*<+0" => format!(concat!("{:", "*<+0", "w$.p$}"), x, w = w, p = p),
        "*^" => format!(concat!("{:", "*^", "w$.p$}"), x, w = w, p = p),
        "*^0" => format!(concat!("{:", "*^0", "w$.p$}"), x, w = w, p = p),
        "*^+" => format!(concat!("{:", "*^+", "w$.p$}"), x, w = w, p = p),
        "*^+0" => format!(concat!("{:", "*^+0", "w$.p$}"), x, w = w, p = p),
        "*>" => format!(concat!("{:", "*>", "w$.p$}"), x, w = w, p = p),
        "*>0" => format!(concat!("{:", "*>0", "w$.p$}"), x, w = w, p = p),
        "*>+" => format!(concat!("{:", "*>+", "w$.p$}"), x, w = w, p = p),
        "*>+0" => format!(concat!("{:", "*>+0", "w$.p$}"), x, w = w, p = p),
        "0<" => format!(concat!("{:", "0<", "w$.p$}"), x, w = w, p = p),
        "0<0" => format!(concat!("{:", "0<0", "w$.p$}"), x, w = w, p = p),
        "0<+" => format!(concat!("{:", "0<+", "w$.p$}"), x, w = w, p = p),
        "0<+0" => format!(concat!("{:", "0<+0", "w$.p$}"), x, w = w, p = p),
        "#>" => format!(concat!("{:", "#>", "w$.p$}"), x, w = w, p = p),
        "#>0" => format!(concat!("{:", "#>0", "w$.p$}"), x, w = w, p = p),
        "#>+" => format!(concat!("{:", "#>+", "w$.p$}"), x, w = w, p = p),
        "#>+0" => format!(concat!("{:", "#>+0", "w$.p$}"), x, w = w, p = p),
        _ => panic!("HARNESS: unknown format flags {}", flags),
    }
}
fn fmt_we<T: fmt::Display + fmt::LowerExp + fmt::UpperExp>(flags: &str, x: &T, w: usize) -> String {
    match flags {
        "" => format!(concat!("{:", "", "w$e}"), x, w = w),
        "0" => format!(concat!("{:", "0", "w$e}"), x, w = w),
        "+" => format!(concat!("{:", "+", "w$e}"), x, w = w),
        "+0" => format!(concat!("{:", "+0", "w$e}"), x, w = w),
        "<" => format!(concat!("{:", "<", "w$e}"), x, w = w),
        "<0" => format!(concat!("{:", "<0", "w$e}"), x, w = w),
        "<+" => format!(concat!("{:", "<+", "w$e}"), x, w = w),
        "<+0" => format!(concat!("{:", "<+0", "w$e}"), x, w = w),
        "^" => format!(concat!("{:", "^", "w$e}"), x, w = w),
        "^0" => format!(concat!("{:", "^0", "w$e}"), x, w = w),
        "^+" => format!(concat!("{:", "^+", "w$e}"), x, w = w),
        "^+0" => format!(concat!("{:", "^+0", "w$e}"), x, w = w),
        ">" => format!(concat!("{:", ">", "w$e}"), x, w = w),
        ">0" => format!(concat!("{:", ">0", "w$e}"), x, w = w),
        ">+" => format!(concat!("{:", ">+", "w$e}"), x, w = w),
        ">+0" => format!(concat!("{:", ">+0", "w$e}"), x, w = w),
        "*<" => format!(concat!("{:", "*<", "w$e}"), x, w = w),
        "*<0" => format!(concat!("{:", "*<0", "w$e}"), x, w = w),
        "*<+" => format!(concat!("{:", "*<+", "w$e}"), x, w = w),
        "*<+0" => format!(concat!("{:", "*<+0", "w$e}"), x, w = w),
        "*^" => format!(concat!("{:", "*^", "w$e}"), x, w = w),
        "*^0" => format!(concat!("{:", "*^0", "w$e}"), x, w = w),
        "*^+" => format!(concat!("{:", "*^+", "w$e}"), x, w = w),
        "*^+0" => format!(concat!("{:", "*^+0", "w$e}"), x, w = w),
        "*>" => format!(concat!("{:", "*>", "w$e}"), x, w = w),
        "*>0" => format!(concat!("{:", "*>0", "w$e}"), x, w = w),
        "*>+" => format!(concat!("{:", "*>+", "w$e}"), x, w = w),
        "*>+0" => format!(concat!("{:", "*>+0", "w$e}"), x, w = w),
        "0<" => format!(concat!("{:", "0<", "w$e}"), x, w = w),
        "0<0" => format!(concat!("{:", "0<0", "w$e}"), x, w = w),
        "0<+" => format!(concat!("{:", "0<+", "w$e}"), x, w = w),
        "0<+0" => format!(concat!("{:", "0<+0", "w$e}"), x, w = w),
        "#>" => format!(concat!("{:", "#>", "w$e}"), x, w = w),
        "#>0" => format!(concat!("{:", "#>0", "w$e}"), x, w = w),
        "#>+" => format!(concat!("{:", "#>+", "w$e}"), x, w = w),
        "#>+0" => format!(concat!("{:", "#>+0", "w$e}"), x, w = w),
        _ => panic!("HARNESS: unknown format flags {}", flags),
    }
}
fn fmt_wpe<T: fmt::Display + fmt::LowerExp + fmt::UpperExp>(flags: &str, x: &T, w: usize, p: usize) -> String {
    match flags {
        "" => format!(concat!("{:", "", "w$.p$e}"), x, w = w, p = p),
        "0" => format!(concat!("{:", "0", "w$.p$e}"), x, w = w, p = p),
        "+" => format!(concat!("{:", "+", "w$.p$e}"), x, w = w, p = p),
        "+0" => format!(concat!("{:", "+0", "w$.p$e}"), x, w = w, p = p),
        "<" => format!(concat!("{:", "<", "w$.p$e}"), x, w = w, p = p),
        "<0" => format!(concat!("{:", "<0", "w$.p$e}"), x, w = w, p = p),
        "<+" => format!(concat!("{:", "<+", "w$.p$e}"), x, w = w, p = p),
        "<+0" => format!(concat!("{:", "<+0", "w$.p$e}"), x, w = w, p = p),
        "^" => format!(concat!("{:", "^", "w$.p$e}"), x, w = w, p = p),
        "^0" => format!(concat!("{:", "^0", "w$.p$e}"), x, w = w, p = p),
        "^+" => format!(concat!("{:", "^+", "w$.p$e}"), x, w = w, p = p),
        "^+0" => format!(concat!("{:", "^+0", "w$.p$e}"), x, w = w, p = p),
        ">" => format!(concat!("{:", ">", "w$.p$e}"), x, w = w, p = p),
        ">0" => format!(concat!("{:", ">0", "w$.p$e}"), x, w = w, p = p),
        ">+" => format!(concat!("{:", ">+", "w$.p$e}"), x, w = w, p = p),
        ">+0" => format!(concat!("{:", ">+0", "w$.p$e}"), x, w = w, p = p),
        "*<" => format!(concat!("{:", "*<", "w$.p$e}"), x, w = w, p = p),
        "*<0" => format!(concat!("{:", "*<0", "w$.p$e}"), x, w = w, p = p),
        "*<+" => format!(concat!("{:", "*<+", "w$.p$e}"), x, w = w, p = p),
        "*<+0" => format!(concat!("{:", "*<+0", "w$.p$e}"), x, w = w, p = p),
        "*^" => format!(concat!("{:", "*^", "w$.p$e}"), x, w = w, p = p),
        "*^0" => format!(concat!("{:", "*^0", "w$.p$e}"), x, w = w, p = p),
        "*^+" => format!(concat!("{:", "*^+", "w$.p$e}"), x, w = w, p = p),
        "*^+0" => format!(concat!("{:", "*^+0", "w$.p$e}"), x, w = w, p = p),
        "*>" => format!(concat!("{:", "*>", "w$.p$e}"), x, w = w, p = p),
        "*>0" => format!(concat!("{:", "*>0", "w$.p$e}"), x, w = w, p = p),
        "*>+" => format!(concat!("{:", "*>+", "w$.p$e}"), x, w = w, p = p),
        "*>+0" => format!(concat!("{:", "*>+0", "w$.p$e}"), x, w = w, p = p),
        "0<" => format!(concat!("{:", "0<", "w$.p$e}"), x, w = w, p = p),
        "0<0" => format!(concat!("{:", "0<0", "w$.p$e}"), x, w = w, p = p),
        "0<+" => format!(concat!("{:", "0<+", "w$.p$e}"), x, w = w, p = p),
        "0<+0" => format!(concat!("{:", "0<+0", "w$.p$e}"), x, w = w, p = p),
        "#>" => format!(concat!("{:", "#>", "w$.p$e}"), x, w = w, p = p),
        "#>0" => format!(concat!("{:", "#>0", "w$.p$e}"), x, w = w, p = p),
        "#>+" => format!(concat!("{:", "#>+", "w$.p$e}"), x, w = w, p = p),
        "#>+0" => format!(concat!("{:", "#>+0", "w$.p$e}"), x, w = w, p = p),
        _ => panic!("HARNESS: unknown format flags {}", flags),
    }
}
fn fmt_w_e<T: fmt::Display + fmt::LowerExp + fmt::UpperExp>(flags: &str, x: &T, w: usize) -> String {
    match flags {
        "" => format!(concat!("{:", "", "w$E}"), x, w = w),
        "0" => format!(concat!("{:", "0", "w$E}"), x, w = w),
        "+" => format!(concat!("{:", "+", "w$E}"), x, w = w),
        "+0" => format!(concat!("{:", "+0", "w$E}"), x, w = w),
        "<" => format!(concat!("{:", "<", "w$E}"), x, w = w),
        "<0" => format!(concat!("{:", "<0", "w$E}"), x, w = w),
        "<+" => format!(concat!("{:", "<+", "w$E}"), x, w = w),
        "<+0" => format!(concat!("{:", "<+0", "w$E}"), x, w = w),
        "^" => format!(concat!("{:", "^", "w$E}"), x, w = w),
        "^0" => format!(concat!("{:", "^0", "w$E}"), x, w = w),
        "^+" => format!(concat!("{:", "^+", "w$E}"), x, w = w),
        "^+0" => format!(concat!("{:", "^+0", "w$E}"), x, w = w),
        ">" => format!(concat!("{:", ">", "w$E}"), x, w = w),
        ">0" => format!(concat!("{:", ">0", "w$E}"), x, w = w),
        ">+" => format!(concat!("{:", ">+", "w$E}"), x, w = w),
        ">+0" => format!(concat!("{:", ">+0", "w$E}"), x, w = w),
        "*<" => format!(concat!("{:", "*<", "w$E}"), x, w = w),
        "*<0" => format!(concat!("{:", "*<0", "w$E}"), x, w = w),
        "*<+" => format!(concat!("{:", "*<+", "w$E}"), x, w = w),
        "*<+0" => format!(concat!("{:", "*<+0", "w$E}"), x, w = w),
        "*^" => format!(concat!("{:", "*^", "w$E}"), x, w = w),
        "*^0" => format!(concat!("{:", "*^0", "w$E}"), x, w = w),
        "*^+" => format!(concat!("{:", "*^+", "w$E}"), x, w = w),
        "*^+0" => format!(concat!("{:", "*^+0", "w$E}"), x, w = w),
        "*>" => format!(concat!("{:", "*>", "w$E}"), x, w = w),
        "*>0" => format!(concat!("{:", "*>0", "w$E}"), x, w = w),
        "*>+" => format!(concat!("{:", "*>+", "w$E}"), x, w = w),
        "*>+0" => format!(concat!("{:", "*>+0", "w$E}"), x, w = w),
        "0<" => format!(concat!("{:", "0<", "w$E}"), x, w = w),
        "0<0" => format!(concat!("{:", "0<0", "w$E}"), x, w = w),
        "0<+" => format!(concat!("{:", "0<+", "w$E}"), x, w = w),
        "0<+0" => format!(concat!("{:", "0<+0", "w$E}"), x, w = w),
        "#>" => format!(concat!("{:", "#>", "w$E}"), x, w = w),
        "#>0" => format!(concat!("{:", "#>0", "w$E}"), x, w = w),
        "#>+" => format!(concat!("{:", "#>+", "w$E}"), x, w = w),
        "#>+0" => format!(concat!("{:", "#>+0", "w$E}"), x, w = w),
        _ => panic!("HARNESS: unknown format flags {}", flags),
    }
}
fn fmt_wp_e<T: fmt::Display + fmt::LowerExp + fmt::UpperExp>(flags: &str, x: &T, w: usize, p: usize) -> String {
    match flags {
        "" => format!(concat!("{:", "", "w$.p$E}"), x, w = w, p = p),
        "0" => format!(concat!("{:", "0", "w$.p$E}"), x, w = w, p = p),
        "+" => format!(concat!("{:", "+", "w$.p$E}"), x, w = w, p = p),
        "+0" => format!(concat!("{:", "+0", "w$.p$E}"), x, w = w, p = p),
        "<" => format!(concat!("{:", "<", "w$.p$E}"), x, w = w, p = p),
        "<0" => format!(concat!("{:", "<0", "w$.p$E}"), x, w = w, p = p),
        "<+" => format!(concat!("{:", "<+", "w$.p$E}"), x, w = w, p = p),
        "<+0" => format!(concat!("{:", "<+0", "w$.p$E}"), x, w = w, p = p),
        "^" => format!(concat!("{:", "^", "w$.p$E}"), x, w = w, p = p),
        "^0" => format!(concat!("{:", "^0", "w$.p$E}"), x, w = w, p = p),
        "^+" => format!(concat!("{:", "^+", "w$.p$E}"), x, w = w, p = p),
        "^+0" => format!(concat!("{:", "^+0", "w$.p$E}"), x, w = w, p = p),
        ">" => format!(concat!("{:", ">", "w$.p$E}"), x, w = w, p = p),
        ">0" => format!(concat!("{:", ">0", "w$.p$E}"), x, w = w, p = p),
        ">+" => format!(concat!("{:", ">+", "w$.p$E}"), x, w = w, p = p),
        ">+0" => format!(concat!("{:", ">+0", "w$.p$E}"), x, w = w, p = p),
        "*<" => format!(concat!("{:", "*<", "w$.p$E}"), x, w = w, p = p),
        "*<0" => format!(concat!("{:", "*<0", "w$.p$E}"), x, w = w, p = p),
        "*<+" => format!(concat!("{:", "*<+", "w$.p$E}"), x, w = w, p = p),
        "*<+0" => format!(concat!("{:", "*<+0", "w$.p$E}"), x, w = w, p = p),
        "*^" => format!(concat!("{:", "*^", "w$.p$E}"), x, w = w, p = p),
        "*^0" => format!(concat!("{:", "*^0", "w$.p$E}"), x, w = w, p = p),
        "*^+" => format!(concat!("{:", "*^+", "w$.p$E}"), x, w = w, p = p),
        "*^+0" => format!(concat!("{:", "*^+0", "w$.p$E}"), x, w = w, p = p),
        "*>" => format!(concat!("{:", "*>", "w$.p$E}"), x, w = w, p = p),
        "*>0" => format!(concat!("{:", "*>0", "w$.p$E}"), x, w = w, p = p),
        "*>+" => format!(concat!("{:", "*>+", "w$.p$E}"), x, w = w, p = p),
        "*>+0" => format!(concat!("{:", "*>+0", "w$.p$E}"), x, w = w, p = p),
        "0<" => format!(concat!("{:", "0<", "w$.p$E}"), x, w = w, p = p),
        "0<0" => format!(concat!("{:", "0<0", "w$.p$E}"), x, w = w, p = p),
        "0<+" => format!(concat!("{:", "0<+", "w$.p$E}"), x, w = w, p = p),
        "0<+0" => format!(concat!("{:", "0<+0", "w$.p$E}"), x, w = w, p = p),
        "#>" => format!(concat!("{:", "#>", "w$.p$E}"), x, w = w, p = p),
        "#>0" => format!(concat!("{:", "#>0", "w$.p$E}"), x, w = w, p = p),
        "#>+" => format!(concat!("{:", "#>+", "w$.p$E}"), x, w = w, p = p),
        "#>+0" => format!(concat!("{:", "#>+0", "w$.p$E}"), x, w = w, p = p),
        _ => panic!("HARNESS: unknown format flags {}", flags),
    }
}

fn render<T: fmt::Display + fmt::LowerExp + fmt::UpperExp>(kind: &str, x: &T, n: Option<usize>, flags: Option<(&str, usize)>) -> String {
    match (kind, n, flags) {
        ("display", None, None) => format!("{}", x),
        ("display", Some(p), None) => format!("{:.*}", p, x),
        ("display", None, Some((f, w))) => fmt_w(f, x, w),
        ("display", Some(p), Some((f, w))) => fmt_wp(f, x, w, p),
        ("lowerexp", None, None) => format!("{:e}", x),
        ("lowerexp", Some(p), None) => format!("{:.p$e}", x, p = p),
        ("lowerexp", None, Some((f, w))) => fmt_we(f, x, w),
        ("lowerexp", Some(p), Some((f, w))) => fmt_wpe(f, x, w, p),
        ("upperexp", None, None) => format!("{:E}", x),
        ("upperexp", Some(p), None) => format!("{:.p$E}", x, p = p),
        ("upperexp", None, Some((f, w))) => fmt_w_e(f, x, w),
        ("upperexp", Some(p), Some((f, w))) => fmt_wp_e(f, x, w, p),
        _ => panic!("HARNESS: unknown fmt kind {}", kind),
    }
}

fn reparse(text: &str) -> Value {
    match BigDecimal::from_str(text) {
        Ok(x) => json!({"d": dec_to_json(&x)}),
        Err(e) => json!({"err": crate::exec4::err_kind(&e)}),
    }
}

pub fn exec_more(ev: &Value) -> Value {
    let op = ev["op"].as_str().expect("op");
    let form = ev.get("form").and_then(|f| f.as_str()).unwrap_or("");
    match op {
        "fmt" => {
            let a = json_to_dec(&ev["a"]);
            let kind = ev["kind"].as_str().expect("kind");
            let n = ev.get("N").and_then(|n| n.as_u64()).map(|n| n as usize);
            let flags = ev.get("flags").map(|f| (f["f"].as_str().expect("flags.f"), f["w"].as_u64().expect("flags.w") as usize));
            let text = match (kind, form) {
                ("debug_alt", _) => format!("{:#?}", a),
                ("debug", _) => format!("{:?}", a),
                ("sci", "string") => a.to_scientific_notation(),
                ("sci", "write") => { let mut s = String::new(); a.write_scientific_notation(&mut s).expect("write"); s }
                ("eng", "string") => a.to_engineering_notation(),
                ("eng", "write") => { let mut s = String::new(); a.write_engineering_notation(&mut s).expect("write"); s }
                ("plain", "string") => a.to_plain_string(),
                ("plain", "write") => { let mut s = String::new(); a.write_plain_string(&mut s).expect("write"); s }
                (_, "val") => render(kind, &a, n, flags),
                (_, "dref") => render(kind, &a.to_ref(), n, flags),
                (_, "to_string") => { assert!(kind == "display" && n.is_none() && flags.is_none()); a.to_string() }
                _ => panic!("HARNESS: unknown fmt form {}/{}", kind, form),
            };
            let mut r = json!({"t": text_to_json(&text), "rp": reparse(&text)});
            if flags.is_some() {
                // the same value rendered without width / fill / alignment / sign flags
                let plain = match form {
                    "val" => render(kind, &a, n, None),
                    _ => render(kind, &a.to_ref(), n, None),
                };
                r["plain"] = text_to_json(&plain);
            }
            r
        }
        _ => crate::exec6::exec_more(ev),
    }
}
