//! Dispatcher: one trace event (operation name, overload form, arguments) -> one call into the real crate.
//! No arithmetic oracle lives here: the outcome is only recorded.  A panic or a timeout is data.

use std::panic::{catch_unwind, AssertUnwindSafe};
use std::sync::mpsc;
use std::time::Duration;

use bigdecimal::{BigDecimal, Context, RoundingMode};
use num_bigint::BigInt;
use num_traits::{Signed, Zero};
use serde_json::{json, Value};

use crate::forms;
use crate::wire::*;

pub fn install_quiet_panic_hook() {
    std::panic::set_hook(Box::new(|_| {}));
}

fn panic_msg(e: Box<dyn std::any::Any + Send>) -> String {
    if let Some(s) = e.downcast_ref::<&str>() {
        s.to_string()
    } else if let Some(s) = e.downcast_ref::<String>() {
        s.clone()
    } else {
        "<non-string panic>".to_string()
    }
}

pub fn mode_of(v: &Value) -> RoundingMode {
    match v.as_str().expect("mode") {
        "Up" => RoundingMode::Up,
        "Down" => RoundingMode::Down,
        "Ceiling" => RoundingMode::Ceiling,
        "Floor" => RoundingMode::Floor,
        "HalfUp" => RoundingMode::HalfUp,
        "HalfDown" => RoundingMode::HalfDown,
        "HalfEven" => RoundingMode::HalfEven,
        m => panic!("unknown mode {}", m),
    }
}
pub fn mode_name(m: RoundingMode) -> &'static str {
    match m {
        RoundingMode::Up => "Up",
        RoundingMode::Down => "Down",
        RoundingMode::Ceiling => "Ceiling",
        RoundingMode::Floor => "Floor",
        RoundingMode::HalfUp => "HalfUp",
        RoundingMode::HalfDown => "HalfDown",
        RoundingMode::HalfEven => "HalfEven",
    }
}
pub const MODES: [&str; 7] = ["Up", "Down", "Ceiling", "Floor", "HalfUp", "HalfDown", "HalfEven"];

pub fn ctx_of(ev: &Value) -> Context {
    let p = ev["p"].as_u64().expect("precision");
    Context::default()
        .with_precision(std::num::NonZeroU64::new(p).expect("nonzero precision"))
        .with_rounding_mode(mode_of(&ev["m"]))
}

fn d(x: BigDecimal) -> Value {
    json!({ "d": dec_to_json(&x) })
}
fn od(x: Option<BigDecimal>) -> Value {
    match x {
        Some(x) => d(x),
        None => json!({"none": 1}),
    }
}
fn int(i: i64) -> Value {
    json!({ "i": i })
}
fn big(n: &BigInt) -> Value {
    json!({ "n": bigint_to_json(n) })
}
fn boolean(b: bool) -> Value {
    json!({ "b": b })
}

/// Execute with a watchdog; a call that does not return is reported as {"timeout": ms}.
/// (The runaway thread is abandoned; the process exits normally at the end of the run.)
pub fn with_timeout<F: FnOnce() -> Value + Send + 'static>(ms: u64, f: F) -> Value {
    let (tx, rx) = mpsc::channel();
    std::thread::Builder::new()
        .stack_size(64 << 20)
        .spawn(move || {
            let r = catch_unwind(AssertUnwindSafe(f));
            let _ = tx.send(match r {
                Ok(v) => v,
                Err(e) => json!({ "panic": panic_msg(e) }),
            });
        })
        .expect("spawn");
    match rx.recv_timeout(Duration::from_millis(ms)) {
        Ok(v) => v,
        Err(_) => json!({ "timeout": ms }),
    }
}

pub fn exec(ev: &Value) -> Value {
    let op = ev["op"].as_str().expect("op").to_string();
    // operations with a risk of non-termination run under the watchdog
    if matches!(op.as_str(), "inverse" | "exp" | "sqrt" | "cbrt") {
        let ev2 = ev.clone();
        return with_timeout(20_000, move || exec_inner(&ev2));
    }
    match catch_unwind(AssertUnwindSafe(|| exec_inner(ev))) {
        Ok(v) => v,
        Err(e) => json!({ "panic": panic_msg(e) }),
    }
}

fn form_of(ev: &Value) -> &str {
    ev.get("form").and_then(|f| f.as_str()).unwrap_or("")
}

fn exec_inner(ev: &Value) -> Value {
    let op = ev["op"].as_str().expect("op");
    let form = form_of(ev);
    match op {
        // ---------------------------------------------------------------- exact arithmetic (C01, C19)
        "add" => d(forms::add(form, &ev["a"], &ev["b"]).unwrap_or_else(|| panic!("HARNESS: unknown add form {}", form))),
        "sub" => d(forms::sub(form, &ev["a"], &ev["b"]).unwrap_or_else(|| panic!("HARNESS: unknown sub form {}", form))),
        "mul" => d(forms::mul(form, &ev["a"], &ev["b"]).unwrap_or_else(|| panic!("HARNESS: unknown mul form {}", form))),
        "div" => d(forms::div(form, &ev["a"], &ev["b"]).unwrap_or_else(|| panic!("HARNESS: unknown div form {}", form))),
        "rem" => d(forms::rem(form, &ev["a"], &ev["b"]).unwrap_or_else(|| panic!("HARNESS: unknown rem form {}", form))),
        "neg" => {
            let a = json_to_dec(&ev["a"]);
            match form {
                "val" => d(-a),
                "ref" => d(-&a),
                "dref" => d((-a.to_ref()).to_owned()),
                _ => panic!("HARNESS: unknown neg form {}", form),
            }
        }
        "abs" => {
            let a = json_to_dec(&ev["a"]);
            match form {
                "method" => d(a.abs()),
                "signed" => d(Signed::abs(&a)),
                "dref" => d(a.to_ref().abs().to_owned()),
                _ => panic!("HARNESS: unknown abs form {}", form),
            }
        }
        "double" => d(json_to_dec(&ev["a"]).double()),
        "half" => d(json_to_dec(&ev["a"]).half()),
        "square" => d(json_to_dec(&ev["a"]).square()),
        "cube" => d(json_to_dec(&ev["a"]).cube()),
        "sum" => {
            let xs: Vec<BigDecimal> = ev["xs"].as_array().expect("xs").iter().map(json_to_dec).collect();
            match form {
                "owned" => d(xs.into_iter().sum::<BigDecimal>()),
                "refs" => d(xs.iter().sum::<BigDecimal>()),
                _ => panic!("HARNESS: unknown sum form {}", form),
            }
        }
        "abs_sub" => d(Signed::abs_sub(&json_to_dec(&ev["a"]), &json_to_dec(&ev["b"]))),
        "signum" => d(Signed::signum(&json_to_dec(&ev["a"]))),
        // ---------------------------------------------------------------- representation (C18)
        "new" => {
            let n = json_to_bigint(&ev["a"]);
            let e = json_scale(&ev["a"]);
            match form {
                "new" => d(BigDecimal::new(n, e)),
                "from_bigint" => d(BigDecimal::from_bigint(n, e)),
                "from_biguint" => d(BigDecimal::from_biguint(n.magnitude().clone(), e)),
                "from_pair" => d(BigDecimal::from((n, e))),
                _ => panic!("HARNESS: unknown new form {}", form),
            }
        }
        "parts" => {
            let a = json_to_dec(&ev["a"]);
            match form {
                "as_bigint_and_exponent" => {
                    let (n, e) = a.as_bigint_and_exponent();
                    json!({"d": parts_to_json(&n, e)})
                }
                "as_bigint_and_scale" => {
                    let (n, e) = a.as_bigint_and_scale();
                    json!({"d": parts_to_json(&n, e)})
                }
                "into_bigint_and_exponent" => {
                    let (n, e) = a.clone().into_bigint_and_exponent();
                    json!({"d": parts_to_json(&n, e)})
                }
                "into_bigint_and_scale" => {
                    let (n, e) = a.clone().into_bigint_and_scale();
                    json!({"d": parts_to_json(&n, e)})
                }
                "to_ref_to_owned" => d(a.to_ref().to_owned()),
                "clone" => d(a.clone()),
                "clone_into" => {
                    let mut dest = BigDecimal::from(77);
                    a.to_ref().clone_into(&mut dest);
                    d(dest)
                }
                "clone_into_equal" => {
                    // the destination already holds the same VALUE in another representation
                    let mut dest = if a.is_zero() { BigDecimal::zero() } else { a.with_scale(a.fractional_digit_count().saturating_add(3)) };
                    if dest.fractional_digit_count() == a.fractional_digit_count() { dest = BigDecimal::from(77); }
                    a.to_ref().clone_into(&mut dest);
                    d(dest)
                }
                "ref_from_bigint" => {
                    // BigDecimalRef::from(&BigInt) has scale 0: only meaningful when a has scale 0
                    let (n, _) = a.as_bigint_and_exponent();
                    let r: bigdecimal::BigDecimalRef = (&n).into();
                    d(r.to_owned())
                }
                _ => panic!("HARNESS: unknown parts form {}", form),
            }
        }
        "digits" => {
            let a = json_to_dec(&ev["a"]);
            match form {
                "digits" => int(a.digits() as i64),
                "count_digits" => int(a.to_ref().count_digits() as i64),
                _ => panic!("HARNESS: unknown digits form {}", form),
            }
        }
        "sign" => {
            let a = json_to_dec(&ev["a"]);
            match form {
                "val" => int(sign_num(a.sign())),
                "dref" => int(sign_num(a.to_ref().sign())),
                _ => panic!("HARNESS: unknown sign form {}", form),
            }
        }
        "scale" => {
            let a = json_to_dec(&ev["a"]);
            match form {
                "val" => big(&BigInt::from(a.fractional_digit_count())),
                "dref" => big(&BigInt::from(a.to_ref().fractional_digit_count())),
                _ => panic!("HARNESS: unknown scale form {}", form),
            }
        }
        "is_zero" => {
            let a = json_to_dec(&ev["a"]);
            match form {
                "val" => boolean(a.is_zero()),
                "dref" => boolean(a.to_ref().is_zero()),
                _ => panic!("HARNESS: unknown is_zero form {}", form),
            }
        }
        "is_one" => boolean(num_traits::One::is_one(&json_to_dec(&ev["a"]))),
        "sign_pred" => {
            let a = json_to_dec(&ev["a"]);
            match form {
                "is_positive" => boolean(a.is_positive()),
                "is_negative" => boolean(a.is_negative()),
                _ => panic!("HARNESS: unknown sign_pred form {}", form),
            }
        }
        "normalized" => d(json_to_dec(&ev["a"]).normalized()),
        "with_scale" => {
            let a = json_to_dec(&ev["a"]);
            let t = ev["t"].as_i64().expect("t");
            match form {
                "with_scale" => d(a.with_scale(t)),
                "to_owned_with_scale" => d(a.to_ref().to_owned_with_scale(t)),
                _ => panic!("HARNESS: unknown with_scale form {}", form),
            }
        }
        "with_prec" => {
            let a = json_to_dec(&ev["a"]);
            d(a.with_prec(ev["p"].as_u64().expect("p")))
        }
        "consts" => match form {
            "zero" => d(BigDecimal::zero()),
            "one" => d(num_traits::One::one()),
            "default" => d(BigDecimal::default()),
            _ => panic!("HARNESS: unknown consts form {}", form),
        },
        _ => crate::exec2::exec_more(ev),
    }
}
