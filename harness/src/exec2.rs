//! More operations (rounding, comparison, hashing, text, conversions, roots, serde ...)
use std::num::{NonZeroU64, NonZeroU8};

use bigdecimal::{BigDecimal, BigDecimalRef, Context, RoundingMode};
use num_bigint::{BigInt, Sign};
use num_traits::{ToPrimitive, Zero};
use serde_json::{json, Value};

use crate::exec::*;
use crate::wire::*;

fn d(x: BigDecimal) -> Value {
    json!({ "d": dec_to_json(&x) })
}
fn sign_of(v: &Value) -> Sign {
    match v.as_i64().expect("sign") {
        -1 => Sign::Minus,
        0 => Sign::NoSign,
        _ => Sign::Plus,
    }
}
/// precision argument: small JSON int "p", or big integer "P"
fn precision_of(ev: &Value) -> u64 {
    if let Some(p) = ev.get("p") {
        p.as_u64().expect("p")
    } else {
        json_to_bigint(&ev["P"]).to_u64().expect("P fits u64")
    }
}

pub fn exec_more(ev: &Value) -> Value {
    let op = ev["op"].as_str().expect("op");
    let form = ev.get("form").and_then(|f| f.as_str()).unwrap_or("");
    match op {
        // ---------------------------------------------------------------- rounding to a scale (C06)
        "with_scale_round" => d(json_to_dec(&ev["a"]).with_scale_round(ev["t"].as_i64().expect("t"), mode_of(&ev["m"]))),
        "round" => d(json_to_dec(&ev["a"]).round(ev["t"].as_i64().expect("t"))),
        "round_pair" => {
            let r = mode_of(&ev["m"]).round_pair(
                sign_of(&ev["sign"]),
                (ev["lhs"].as_u64().unwrap() as u8, ev["rhs"].as_u64().unwrap() as u8),
                ev["tz"].as_bool().unwrap(),
            );
            json!({ "i": r })
        }
        "round_u32" => {
            let value = json_to_bigint(&ev["value"]).to_u32().expect("u32 value");
            let r = mode_of(&ev["m"]).round_u32(
                NonZeroU8::new(ev["at"].as_u64().unwrap() as u8).unwrap(),
                sign_of(&ev["sign"]),
                value,
                ev["tz"].as_bool().unwrap(),
            );
            json!({ "n": u128_to_json(r as u128) })
        }
        // ---------------------------------------------------------------- rounding to a precision (C07)
        "with_precision_round" => {
            let p = NonZeroU64::new(precision_of(ev)).expect("nonzero precision");
            d(json_to_dec(&ev["a"]).with_precision_round(p, mode_of(&ev["m"])))
        }
        "ctx_round" => {
            let a = json_to_dec(&ev["a"]);
            let ctx = ctx_of(ev);
            match form {
                "round_decimal" => d(ctx.round_decimal(a.clone())),
                "round_decimal_ref_ref" => d(ctx.round_decimal_ref(&a)),
                "round_decimal_ref_dref" => d(ctx.round_decimal_ref(a.to_ref())),
                "round_decimal_ref_rbigint" => {
                    let (n, e) = a.as_bigint_and_exponent();
                    assert_eq!(e, 0);
                    d(ctx.round_decimal_ref(&n))
                }
                "round_with_context" => d(a.to_ref().round_with_context(&ctx)),
                _ => panic!("HARNESS: unknown ctx_round form {}", form),
            }
        }
        "ctx_add" => {
            let a = json_to_dec(&ev["a"]);
            let b = json_to_dec(&ev["b"]);
            let ctx = ctx_of(ev);
            match form {
                "add_refs_ref_ref" => d(ctx.add_refs(&a, &b)),
                "add_refs_dref_dref" => d(ctx.add_refs(a.to_ref(), b.to_ref())),
                "add_refs_ref_dref" => d(ctx.add_refs(&a, b.to_ref())),
                "add_refs_rbigint_ref" => {
                    let (n, e) = a.as_bigint_and_exponent();
                    assert_eq!(e, 0);
                    d(ctx.add_refs(&n, &b))
                }
                "add_refs_into_ref_ref" => {
                    let mut dest = BigDecimal::from(-7);
                    ctx.add_refs_into(&a, &b, &mut dest);
                    d(dest)
                }
                "add_refs_into_dref_ref" => {
                    let mut dest = BigDecimal::from(-7);
                    ctx.add_refs_into(a.to_ref(), &b, &mut dest);
                    d(dest)
                }
                _ => panic!("HARNESS: unknown ctx_add form {}", form),
            }
        }
        "ctx_default" => {
            let c = Context::default();
            json!({"ctx": {"precision": c.precision().get(), "mode": mode_name(c.rounding_mode())}})
        }
        "ctx_setters" => {
            // constructor / setters are identities on (precision, mode)
            let p = NonZeroU64::new(ev["p"].as_u64().unwrap()).unwrap();
            let m = mode_of(&ev["m"]);
            let c = match form {
                "new" => Context::new(p, m),
                "with_precision" => Context::default().with_rounding_mode(m).with_precision(p),
                "with_prec" => Context::default().with_rounding_mode(m).with_prec(p.get()).unwrap(),
                "with_rounding_mode" => Context::default().with_precision(p).with_rounding_mode(m),
                _ => panic!("HARNESS: unknown ctx_setters form {}", form),
            };
            json!({"ctx": {"precision": c.precision().get(), "mode": mode_name(c.rounding_mode())}})
        }
        _ => crate::exec3::exec_more(ev),
    }
}
