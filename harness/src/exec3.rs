//! Comparison, hashing (C02, C03) and further operations
use std::cmp::Ordering;
use std::hash::{Hash, Hasher};

use bigdecimal::{BigDecimal, BigDecimalRef};
use serde_json::{json, Value};

use crate::wire::*;

fn ord_num(o: Ordering) -> i64 {
    match o {
        Ordering::Less => -1,
        Ordering::Equal => 0,
        Ordering::Greater => 1,
    }
}

/// Hasher that records the byte stream it is fed (digested with FNV-1a-128 for the trace)
pub struct Recorder {
    pub fnv: u128,
    pub len: u64,
    /// the call structure: a Hasher may treat every `write` call as a unit, so equal values must also
    /// issue the same sequence of calls (digest over the lengths of the calls)
    pub calls: u64,
    pub call_fnv: u64,
}
impl Recorder {
    pub fn new() -> Recorder {
        Recorder { fnv: 0x6c62272e07bb014262b821756295c58d, len: 0, calls: 0, call_fnv: 0xcbf29ce484222325 }
    }
}
impl Hasher for Recorder {
    fn finish(&self) -> u64 {
        self.fnv as u64
    }
    fn write(&mut self, bytes: &[u8]) {
        for b in bytes {
            self.fnv ^= *b as u128;
            self.fnv = self.fnv.wrapping_mul(0x0000000001000000000000000000013B);
        }
        self.len += bytes.len() as u64;
        self.calls += 1;
        for b in (bytes.len() as u64).to_le_bytes() {
            self.call_fnv ^= b as u64;
            self.call_fnv = self.call_fnv.wrapping_mul(0x100000001b3);
        }
    }
}

pub const CMP_FORMS: [&str; 18] = [
    "eq_val", "ne_val", "lt_val", "le_val", "gt_val", "ge_val", "cmp_val", "partial_cmp_val",
    "eq_dref", "ne_dref", "eq_dref_ref", "lt_dref", "le_dref", "gt_dref", "ge_dref", "cmp_dref", "partial_cmp_dref",
    "eq_ref",
];

pub fn exec_more(ev: &Value) -> Value {
    let op = ev["op"].as_str().expect("op");
    let form = ev.get("form").and_then(|f| f.as_str()).unwrap_or("");
    match op {
        // ---------------------------------------------------------------- comparison (C02)
        "cmp" => {
            let a = json_to_dec(&ev["a"]);
            let b = json_to_dec(&ev["b"]);
            let (ra, rb): (BigDecimalRef, BigDecimalRef) = (a.to_ref(), b.to_ref());
            match form {
                "eq_val" => json!({"b": a == b}),
                "ne_val" => json!({"b": a != b}),
                "eq_ref" => json!({"b": &a == &b}),
                "lt_val" => json!({"b": a < b}),
                "le_val" => json!({"b": a <= b}),
                "gt_val" => json!({"b": a > b}),
                "ge_val" => json!({"b": a >= b}),
                "cmp_val" => json!({"i": ord_num(a.cmp(&b))}),
                "partial_cmp_val" => json!({"i": ord_num(a.partial_cmp(&b).expect("partial_cmp is total"))}),
                "eq_dref" => json!({"b": ra == rb}),
                "ne_dref" => json!({"b": ra != rb}),
                "eq_dref_ref" => json!({"b": ra == &b}),
                "lt_dref" => json!({"b": ra < rb}),
                "le_dref" => json!({"b": ra <= rb}),
                "gt_dref" => json!({"b": ra > rb}),
                "ge_dref" => json!({"b": ra >= rb}),
                "cmp_dref" => json!({"i": ord_num(ra.cmp(&rb))}),
                "partial_cmp_dref" => json!({"i": ord_num(ra.partial_cmp(&rb).expect("partial_cmp is total"))}),
                _ => panic!("HARNESS: unknown cmp form {}", form),
            }
        }
        "maxmin" => {
            let a = json_to_dec(&ev["a"]);
            let b = json_to_dec(&ev["b"]);
            match form {
                "max" => json!({"d": dec_to_json(&a.max(b))}),
                "min" => json!({"d": dec_to_json(&a.min(b))}),
                "max_dref" => json!({"d": dec_to_json(&a.to_ref().max(b.to_ref()).to_owned())}),
                "min_dref" => json!({"d": dec_to_json(&a.to_ref().min(b.to_ref()).to_owned())}),
                _ => panic!("HARNESS: unknown maxmin form {}", form),
            }
        }
        "sort" => {
            let mut xs: Vec<BigDecimal> = ev["xs"].as_array().expect("xs").iter().map(json_to_dec).collect();
            match form {
                "sort" => xs.sort(),
                "sort_unstable" => xs.sort_unstable(),
                "sort_dref" => {
                    let mut rs: Vec<BigDecimalRef> = xs.iter().map(|x| x.to_ref()).collect();
                    rs.sort();
                    let out: Vec<BigDecimal> = rs.iter().map(|r| r.to_owned()).collect();
                    return json!({"ds": out.iter().map(dec_to_json).collect::<Vec<_>>()});
                }
                _ => panic!("HARNESS: unknown sort form {}", form),
            }
            json!({"ds": xs.iter().map(dec_to_json).collect::<Vec<_>>()})
        }
        // ---------------------------------------------------------------- hashing (C03)
        "hash" => {
            let a = json_to_dec(&ev["a"]);
            let mut rec = Recorder::new();
            a.hash(&mut rec);
            let mut dh = std::collections::hash_map::DefaultHasher::new();
            a.hash(&mut dh);
            json!({"h": format!("{:032x}", rec.fnv), "len": rec.len, "dh": format!("{:016x}", dh.finish()),
                   "calls": format!("{}:{:016x}", rec.calls, rec.call_fnv)})
        }
        "eq_hash" => {
            // the crate's own equality next to the digests of both operands
            let a = json_to_dec(&ev["a"]);
            let b = json_to_dec(&ev["b"]);
            let dig = |x: &BigDecimal| { let mut r = Recorder::new(); x.hash(&mut r); format!("{:032x}/{}/{}:{:016x}", r.fnv, r.len, r.calls, r.call_fnv) };
            json!({"eq": a == b, "ha": dig(&a), "hb": dig(&b)})
        }
        "hashset" => {
            // user-level consequence: equal values collide in a HashSet
            let xs: Vec<BigDecimal> = ev["xs"].as_array().expect("xs").iter().map(json_to_dec).collect();
            let set: std::collections::HashSet<BigDecimal> = xs.into_iter().collect();
            json!({"i": set.len()})
        }
        _ => crate::exec4::exec_more(ev),
    }
}
