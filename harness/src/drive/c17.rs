//! C17: serde round trips, JSON documents, token streams.
use rand::rngs::StdRng;
use rand::Rng;
use serde_json::{json, Value};

use super::c01::{prim_bounds, prim_value};
use super::Tracer;
use crate::gen::*;
use crate::wire::*;

const RT_FORMS: [&str; 5] = ["json_string", "json_value", "token", "json_num", "json_num_option"];

fn limit() -> i64 {
    env!("BDV_RUST_BIGDECIMAL_SERDE_SCALE_LIMIT").parse::<i64>().unwrap_or(0)
}

pub fn drive(tr: &mut Tracer, rng: &mut StdRng, thorough: bool) {
    let lim = if limit() > 0 { limit() } else { 150000 };
    // round trips: 1..400 digits, scales to the limit +-1, zeros with scales, each Display notation
    let n = if thorough { 20000 } else { 2500 };
    for i in 0..n {
        let len = pick_len(rng, 400);
        let sc: i64 = match i % 8 {
            0 => [lim, lim - 1, lim + 1, -lim, -lim + 1, -lim - 1][rng.gen_range(0..6)],
            1 => rng.gen_range(-lim..=lim),
            2 => rng.gen_range(-20..=0),                     // padded Display
            3 => len as i64 + rng.gen_range(0..12),          // 0.000ddd around the leading-zero threshold
            4 => rng.gen_range(-30..=-10),                   // trailing-zero threshold
            _ => rng.gen_range(-40..=60),
        };
        let a = if i % 23 == 0 { dec(false, "0", sc) } else { dec(rng.gen_bool(0.5), &shaped_digits(rng, len), sc) };
        let f = RT_FORMS[i % 5];
        tr.emit(json!({"op": "serde_roundtrip", "form": f, "a": a}));
        if i % 50 == 0 { for f in RT_FORMS { tr.emit(json!({"op": "serde_roundtrip", "form": f, "a": a})); } }
    }
    // zeros with positive and negative scales, including the result of rounding to a negative scale
    for sc in -25..=25i64 {
        for f in RT_FORMS { tr.emit(json!({"op": "serde_roundtrip", "form": f, "a": dec(false, "0", sc)})); }
    }
    tr.emit(json!({"op": "serde_none"}));
    // JSON documents: numbers of 1..2000 digits, fractions, exponents, leading '-', malformed numbers
    let nd = if thorough { 20000 } else { 3000 };
    let forms = ["plain", "plain_value", "json_num", "json_num_option"];
    for i in 0..nd {
        let mut s = String::new();
        if rng.gen_bool(0.4) { s.push('-'); }
        let il = if i % 30 == 0 { rng.gen_range(1..=2000) } else { pick_len(rng, 60) };
        let lead_zero = rng.gen_range(0..12) == 0;
        if lead_zero { s.push('0'); } else { s.push_str(&rand_digits(rng, il)); }
        if rng.gen_bool(0.5) {
            s.push('.');
            let fl = if i % 31 == 0 { rng.gen_range(1..=2000) } else { rng.gen_range(1..=40) };
            for _ in 0..fl { s.push((b'0' + rng.gen_range(0..10u8)) as char); }
        }
        if rng.gen_bool(0.4) {
            s.push(if rng.gen_bool(0.5) { 'e' } else { 'E' });
            match rng.gen_range(0..3) { 0 => s.push('+'), 1 => s.push('-'), _ => {} }
            let e: i64 = match i % 7 { 0 => lim + rng.gen_range(-2..=2), 1 => rng.gen_range(0..=lim * 2), 2 => rng.gen_range(0..=400), _ => rng.gen_range(0..=30) };
            s.push_str(&format!("{}", e));
        }
        // malformed variants
        let doc = match i % 10 {
            0 => { let mut b = s.clone(); let pos = rng.gen_range(0..=b.len()); b.insert(pos, ['+', '.', 'e', '-', ' ', 'x', '_', '0'][rng.gen_range(0..8)]); b }
            1 => format!("\"{}\"", s),                       // numeric string
            2 => { let mut b = s.clone(); b.pop(); b }
            _ => s.clone(),
        };
        let f = forms[i % 4];
        tr.emit(json!({"op": "de_json", "form": f, "doc": text_to_json(&doc)}));
    }
    // composite documents where a decimal is expected, and numbers whose exponent exceeds every integer type: errors, never a value or None
    for doc in ["{\"amount\": 12.5}", "{\"a\":{\"b\":3}}", "{\"x\":\"1.5\"}", "{\"a\":1,\"b\":2}", "{\"a\":null}", "[12.5]", "[[1]]", "[\"1\"]", "{\"a\":[1]}",
                "1e9223372036854775809", "-2.5E+10000000000000000000", "1e-9223372036854775809", "7E18446744073709551616", "0e9223372036854775809", "1e340282366920938463463374607431768211456"] {
        for f in forms {
            tr.emit(json!({"op": "de_json", "form": f, "doc": text_to_json(doc)}));
        }
    }
    for doc in ["null", "true", "[1]", "{}", "\"\"", "\"abc\"", "\"1e5\"", "\"-.5\"", "\".+5\"", "\"1_000\"", "1e", "-", "", "01", "1.", ".5", "+1", "--1", "1.0.0", "0x10", "1e5e5", "\"12.5\"", "-0", "-0.0e-0", "0e0", "1E+2", "NaN", "Infinity"] {
        for f in forms {
            tr.emit(json!({"op": "de_json", "form": f, "doc": text_to_json(doc)}));
        }
    }
    // token streams of every integer / float width, strings
    for ty in ["i8", "i16", "i32", "i64", "i128", "u8", "u16", "u32", "u64", "u128"] {
        let (lo, hi) = prim_bounds(ty);
        let mut vals = vec![num_bigint::BigInt::from(lo), num_bigint::BigInt::from(hi), 0.into(), 1.into(), num_bigint::BigInt::from(hi) - 1, num_bigint::BigInt::from(hi) / 2 + 1];
        for _ in 0..(if thorough { 300 } else { 40 }) { vals.push(json_to_bigint(&prim_value(rng, ty))); }
        for v in vals {
            tr.emit(json!({"op": "de_token", "ty": ty, "v": bigint_to_json(&v)}));
        }
    }
    for _ in 0..(if thorough { 3000 } else { 300 }) {
        tr.emit(json!({"op": "de_token", "ty": "f64", "bits": u128_to_json(rng.gen::<u64>() as u128)}));
        tr.emit(json!({"op": "de_token", "ty": "f32", "bits": u128_to_json(rng.gen::<u32>() as u128)}));
    }
    // integral floats at the integer type limits: 2^k and its neighbours
    for k in 0..=130i32 {
        for x in [2f64.powi(k), -(2f64.powi(k)), 2f64.powi(k) * (1.0 + f64::EPSILON), 2f64.powi(k) * (1.0 - f64::EPSILON / 2.0)] {
            tr.emit(json!({"op": "de_token", "ty": "f64", "bits": u128_to_json(x.to_bits() as u128)}));
        }
        if k < 128 { tr.emit(json!({"op": "de_token", "ty": "f32", "bits": u128_to_json(2f32.powi(k).to_bits() as u128)})); }
    }
    for b in [0x7FF0000000000000u64, 0x7FF8000000000000, 0xFFF0000000000000, 0, 1 << 63, 1] {
        tr.emit(json!({"op": "de_token", "ty": "f64", "bits": u128_to_json(b as u128)}));
    }
    // subnormal and smallest-normal floats of both signs (random bit patterns hardly ever are subnormal)
    for neg in [0u64, 1u64] {
        let mut mants: Vec<u64> = vec![1, 2, 3, 1 << 51, (1 << 52) - 1, (1 << 52) - 2, 1 << 26, 0x000F_0F0F_0F0F_0F0F];
        for _ in 0..(if thorough { 400 } else { 40 }) { mants.push(rng.gen::<u64>() & ((1 << 52) - 1)); }
        for m in mants {
            tr.emit(json!({"op": "de_token", "ty": "f64", "bits": u128_to_json(((neg << 63) | m) as u128)}));                   // subnormal
            tr.emit(json!({"op": "de_token", "ty": "f64", "bits": u128_to_json(((neg << 63) | (1 << 52) | m) as u128)}));       // exponent field 1
        }
        let mut m32: Vec<u32> = vec![1, 2, 1 << 22, (1 << 23) - 1, 1 << 11];
        for _ in 0..(if thorough { 200 } else { 20 }) { m32.push(rng.gen::<u32>() & ((1 << 23) - 1)); }
        for m in m32 {
            tr.emit(json!({"op": "de_token", "ty": "f32", "bits": u128_to_json((((neg as u32) << 31) | m) as u128)}));
            tr.emit(json!({"op": "de_token", "ty": "f32", "bits": u128_to_json((((neg as u32) << 31) | (1 << 23) | m) as u128)}));
        }
    }
    // the same region as JSON text (numbers that serde_json hands over as binary64)
    for doc in ["5e-324", "-5e-324", "4.9406564584124654e-324", "-4.9406564584124654e-324", "2.2250738585072009e-308", "-2.2250738585072009e-308",
                "2.2250738585072014e-308", "-2.2250738585072014e-308", "1e-310", "-1e-310", "-2.224e-320", "1.5e-315", "-1.5e-315", "-3e-323", "1.7976931348623157e308", "-1.7976931348623157e308"] {
        for f in forms {
            tr.emit(json!({"op": "de_json", "form": f, "doc": text_to_json(doc)}));
        }
    }
    for ty in ["bool", "unit", "bytes"] {
        tr.emit(json!({"op": "de_token", "ty": ty}));
    }
    tr.emit(json!({"op": "de_token", "ty": "char", "text": text_to_json("7")}));
    for s in ["12.5", "-1e3", " 1", "", "1_0", ".+5", "٣", "1e99999999999999999999"] {
        tr.emit(json!({"op": "de_token", "ty": "str", "text": text_to_json(s)}));
        tr.emit(json!({"op": "de_token", "ty": "string", "text": text_to_json(s)}));
    }
}
