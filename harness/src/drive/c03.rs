//! C03: hash agrees with equality. Groups of equal values in different representations; the
//! specification remembers the digest of the first representation of each value (history variable).
use num_bigint::BigUint;
use rand::rngs::StdRng;
use rand::Rng;
use serde_json::{json, Value};

use super::Tracer;
use crate::gen::*;

pub fn group(tr: &mut Tracer, rng: &mut StdRng, core: &str, exp: i64, neg: bool, max_pad: usize) {
    // value = core * 10^exp, core without trailing zeros; representations: (core * 10^k, scale = k - exp)
    tr.reserve(120);
    tr.emit(json!({"op": "reset"}));
    let mut reps: Vec<Value> = vec![];
    let mut pads: Vec<usize> = vec![0, 1, 2, 3];
    for _ in 0..4 { pads.push(rng.gen_range(0..=max_pad)); }
    // written-out zeros vs negative scale, zero runs longer than the scale, etc.
    if exp > 0 { pads.push(exp as usize); pads.push(exp as usize + 1); if exp > 1 { pads.push(exp as usize - 1); } }
    for k in pads {
        let digits = format!("{}{}", core, "0".repeat(k));
        reps.push(dec(neg, &digits, k as i64 - exp));
    }
    for r in &reps {
        tr.emit(json!({"op": "hash", "a": r}));
    }
    tr.emit(json!({"op": "hashset", "xs": reps}));
}

pub fn drive(tr: &mut Tracer, rng: &mut StdRng, thorough: bool) {
    let n = if thorough { 6000 } else { 1500 };
    let max_pad = if thorough { 300 } else { 120 };
    for i in 0..n {
        let len = pick_len(rng, if thorough { 400 } else { 120 });
        let mut core = shaped_digits(rng, len);
        // the core itself may contain inner zero runs but must not end in zero (so that the value has a
        // unique normal form and the group members differ only in representation)
        while core.ends_with('0') { core.pop(); }
        if core.is_empty() { core = "1".into(); }
        let exp: i64 = match i % 5 { 0 => rng.gen_range(0..=40), 1 => rng.gen_range(-40..=0), 2 => 0, 3 => rng.gen_range(0..=max_pad as i64), _ => rng.gen_range(-300..=300) };
        let neg = rng.gen_bool(0.5);
        group(tr, rng, &core, exp, neg, max_pad);
    }
    // pairs the crate's == might wrongly identify: equal low 32-bit words, different high words; scale gaps 1..19 and beyond
    for i in 0..(if thorough { 4000 } else { 800 }) {
        let k: u32 = if i % 3 == 0 { rng.gen_range(20..40) } else { rng.gen_range(1..=19) };
        let l = pick_len(rng, 45);
        let x: BigUint = shaped_digits(rng, l).parse().unwrap();
        let y = &x * BigUint::from(10u8).pow(k);
        let nw = y.to_u32_digits().len();
        let cands = [y.clone(), &y + (BigUint::from(1u8) << (32 * nw)), &y + (BigUint::from(1u8) << (32 * (nw + 1))),
                     &y + (BigUint::from(rng.gen_range(1..u32::MAX)) << (32 * nw)), &y + 1u8,
                     BigUint::new(y.to_u32_digits()[..nw.saturating_sub(1).max(1)].to_vec())];
        let sc = rng.gen_range(-10..=10i64);
        let neg = rng.gen_bool(0.5);
        let a = crate::wire::parts_to_json(&if neg { -num_bigint::BigInt::from(x.clone()) } else { num_bigint::BigInt::from(x.clone()) }, sc);
        for c in cands.iter() {
            let bb = num_bigint::BigInt::from(c.clone());
            let b = crate::wire::parts_to_json(&if neg { -bb } else { bb }, sc + k as i64);
            if i % 2 == 0 { tr.emit(json!({"op": "eq_hash", "a": a, "b": b})); } else { tr.emit(json!({"op": "eq_hash", "a": b, "b": a})); }
        }
    }
    // zero with any scale and either construction sign (the wire has no negative zero; -0 is made by the crate)
    tr.emit(json!({"op": "reset"}));
    let mut zs = vec![];
    for sc in [0i64, 1, 2, 3, 17, -1, -2, -3, -17, 250, -250, 100000, -100000] {
        let z = dec(false, "0", sc);
        tr.emit(json!({"op": "hash", "a": z}));
        zs.push(z);
    }
    tr.emit(json!({"op": "hashset", "xs": zs}));
    // large |scale| (thorough): the hash materialises zeros
    // (the property quantifies over |scale| <= 10^5: the 16-bit boundary and the upper end are in the quick tier too)
    let big = if thorough { vec![1000i64, 10000, 32768, 65535, 65536, 65537, 70000, 99999, 100000] } else { vec![1000i64, 20000, 65536, 65537, 100000] };
    for e in big {
        for neg in [false, true] {
            tr.emit(json!({"op": "reset"}));
            tr.emit(json!({"op": "hash", "a": dec(neg, "123", -e)}));
            tr.emit(json!({"op": "hash", "a": dec(neg, &format!("123{}", "0".repeat(e as usize)), 0)}));
            tr.emit(json!({"op": "hash", "a": dec(neg, &format!("123{}", "0".repeat(e as usize / 2)), -(e - e / 2))}));
            tr.emit(json!({"op": "hash", "a": dec(neg, &format!("123{}", "0".repeat(e as usize + 5)), 5)}));
            tr.emit(json!({"op": "reset"}));
            tr.emit(json!({"op": "hash", "a": dec(neg, "123", e)}));
            tr.emit(json!({"op": "hash", "a": dec(neg, "12300", e + 2)}));
        }
    }
}
