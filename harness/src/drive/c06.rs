//! C06: rounding to a scale - large decimals, ties, near ties, all-nines carries, targets left of the leading digit.
use rand::rngs::StdRng;
use rand::Rng;
use serde_json::{json, Value};

use super::Tracer;
use crate::exec::MODES;
use crate::gen::*;
use crate::wire::*;

/// digits whose tail after position `keep` is a tie / near tie / nines
pub fn tie_digits(rng: &mut StdRng, len: usize, keep: usize) -> String {
    let keep = keep.min(len.saturating_sub(1)).max(1);
    let rest = len - keep;
    let head = match rng.gen_range(0..4) {
        0 => "9".repeat(keep),
        _ => rand_digits(rng, keep),
    };
    let tail = if rest == 0 { String::new() } else {
        match rng.gen_range(0..7) {
            0 => format!("5{}", "0".repeat(rest - 1)),                                  // exact tie
            1 => format!("4{}", "9".repeat(rest - 1)),                                  // just below
            2 => if rest >= 2 { format!("5{}1", "0".repeat(rest - 2)) } else { "6".into() }, // just above
            3 => "9".repeat(rest),
            4 => "0".repeat(rest),
            5 => if rest >= 2 { format!("{}1", "0".repeat(rest - 1)) } else { "1".into() },
            _ => rand_digits(rng, rest).replacen(|c: char| c != '0', "0", 0),
        }
    };
    format!("{}{}", head, tail)
}

pub fn drive(tr: &mut Tracer, rng: &mut StdRng, thorough: bool) {
    let n = if thorough { 60000 } else { 9000 };
    let max_len = if thorough { 3000 } else { 700 };
    for i in 0..n {
        let len = pick_len(rng, max_len);
        let sc: i64 = if i % 7 == 0 { rng.gen_range(-3000..=3000) } else { rng.gen_range(-30..=60) };
        // position (number of digits kept) the rounding will be aimed at
        let keep = rng.gen_range(0..=len + 2);
        let digits = if i % 3 == 0 { shaped_digits(rng, len) } else { tie_digits(rng, len, keep.max(1)) };
        let neg = rng.gen_bool(0.5);
        let a = if i % 41 == 0 { dec(false, "0", sc) } else { dec(neg, &digits, sc) };
        // target scale: keeps `keep` digits (may be left of the leading digit: keep = 0, or beyond the end)
        let t = sc - (len as i64 - keep as i64) + if i % 11 == 0 { rng.gen_range(-3..=3) } else { 0 };
        let m = MODES[rng.gen_range(0..7)];
        match i % 10 {
            0 => { tr.emit(json!({"op": "with_scale", "form": "with_scale", "a": a, "t": t})); }
            1 => { tr.emit(json!({"op": "with_scale", "form": "to_owned_with_scale", "a": a, "t": t})); }
            2 => { tr.emit(json!({"op": "round", "a": a, "t": t})); }
            3 => { for m in MODES { tr.emit(json!({"op": "with_scale_round", "a": a, "t": t, "m": m})); } }
            _ => { tr.emit(json!({"op": "with_scale_round", "a": a, "t": t, "m": m})); }
        }
    }
    // byte / word boundaries of the number of digits dropped or added (shift-count fast paths)
    for dist in (250..=280usize).chain(505..=535).chain([19, 20, 21, 589, 590, 591, 1000]) {
        for extra in [3usize, 40] {
            let len = dist + extra;
            let sc = rng.gen_range(-5..=(len as i64));
            let a = dec(rng.gen_bool(0.5), &shaped_digits(rng, len), sc);
            let t = sc - dist as i64;
            tr.emit(json!({"op": "with_scale", "form": "with_scale", "a": a, "t": t}));
            tr.emit(json!({"op": "with_scale", "form": "to_owned_with_scale", "a": a, "t": t}));
            tr.emit(json!({"op": "with_scale_round", "a": a, "t": t, "m": MODES[(dist + extra) % 7]}));
            tr.emit(json!({"op": "round", "a": a, "t": t}));
            // and the same distance upward
            tr.emit(json!({"op": "with_scale", "form": "with_scale", "a": a, "t": sc + dist as i64}));
            tr.emit(json!({"op": "with_scale_round", "a": a, "t": sc + dist as i64, "m": "Up"}));
        }
    }
    // every small distance 0..45, downward and upward, through every entry point (machine-word fast paths for "few digits")
    for dist in 0..=45usize {
        for (k, len) in [1usize, 2, 9, 18, 19, 20, 21, 38, 39, 40].iter().enumerate() {
            let sc = rng.gen_range(-4..=30i64);
            let digits = match (dist + k) % 3 { 0 => format!("1{}5", "0".repeat(*len)), 1 => format!("{}", "9".repeat(*len + 1)), _ => shaped_digits(rng, *len + 1) };
            let a = dec((dist + k) % 2 == 0, &digits, sc);
            for t in [sc - dist as i64, sc + dist as i64] {
                tr.emit(json!({"op": "with_scale", "form": "with_scale", "a": a, "t": t}));
                tr.emit(json!({"op": "with_scale", "form": "to_owned_with_scale", "a": a, "t": t}));
                tr.emit(json!({"op": "round", "a": a, "t": t}));
                tr.emit(json!({"op": "with_scale_round", "a": a, "t": t, "m": MODES[(dist + k) % 7]}));
                tr.emit(json!({"op": "with_scale_round", "a": a, "t": t, "m": MODES[(dist + k + 3) % 7]}));
            }
        }
    }
    // long numbers cut down to their first 0..12 digits: mantissas just above 1.0, just below 10, arbitrary
    let lens: Vec<usize> = (21..=64usize).chain([99, 100, 101, 300, 301, 700]).chain(if thorough { vec![1500, 3000] } else { vec![] }).collect();
    for len in lens {
        for shape in 0..3 {
            let digits = match shape { 0 => format!("10{}", rand_digits(rng, len - 2)), 1 => format!("99{}", rand_digits(rng, len - 2)), _ => shaped_digits(rng, len) };
            let sc = rng.gen_range(-40..=(len as i64 + 5));
            let a = dec(shape == 1, &digits, sc);
            for keep in [0usize, 1, 2, 3, 5, 10, 12] {
                let t = sc - (len as i64 - keep as i64);
                tr.emit(json!({"op": "with_scale", "form": "with_scale", "a": a, "t": t}));
                tr.emit(json!({"op": "with_scale", "form": "to_owned_with_scale", "a": a, "t": t}));
                tr.emit(json!({"op": "with_scale_round", "a": a, "t": t, "m": "Down"}));
                tr.emit(json!({"op": "with_scale_round", "a": a, "t": t, "m": MODES[(len + keep) % 7]}));
            }
        }
    }
    // the digit-pair primitive: all 4200 arguments
    for m in MODES {
        for sign in [-1, 0, 1] {
            for lhs in 0..10 {
                for rhs in 0..10 {
                    for tz in [false, true] {
                        tr.emit(json!({"op": "round_pair", "m": m, "sign": sign, "lhs": lhs, "rhs": rhs, "tz": tz}));
                    }
                }
            }
        }
    }
    // round_u32
    let n32 = if thorough { 40000 } else { 6000 };
    for i in 0..n32 {
        let at = rng.gen_range(1..=9u32);
        let value: u32 = match i % 5 {
            0 => rng.gen_range(0..4_000_000_000u32),
            1 => { let k = 10u32.pow(at); (rng.gen_range(0..(4_000_000_000u32 / k)) * k) + k / 2 }      // tie at the digit
            2 => { let k = 10u32.pow(at); (rng.gen_range(0..(4_000_000_000u32 / k)) * k) + k - 1 }      // nines below
            3 => rng.gen_range(0..1000),
            _ => { let k = 10u32.pow(at); rng.gen_range(0..(4_000_000_000u32 / k)) * k },
        };
        let m = MODES[rng.gen_range(0..7)];
        let sg: i64 = rng.gen_range(-1..=1);
        tr.emit(json!({"op": "round_u32", "m": m, "at": at, "sign": sg,
                       "value": u128_to_json(value as u128), "tz": rng.gen_bool(0.5)}));
    }
}
