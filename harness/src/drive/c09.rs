//! C09: remainder, five spellings, both directions of the scale gap.
use rand::rngs::StdRng;
use rand::Rng;
use serde_json::{json, Value};

use super::Tracer;
use crate::gen::*;
use crate::wire::*;

const FORMS: [&str; 5] = ["val_val", "val_ref", "ref_val", "ref_ref", "assign_ref"];

pub fn drive(tr: &mut Tracer, rng: &mut StdRng, thorough: bool) {
    for f in FORMS {
        for zsc in [0i64, 4, -3] {
            let l = pick_len(rng, 20);
            tr.emit(json!({"op": "rem", "form": f, "a": dec(rng.gen_bool(0.5), &shaped_digits(rng, l), rng.gen_range(-4..=4)), "b": dec(false, "0", zsc)}));
        }
    }
    // operands equal up to representation, exact small multiples, divisors just above a power of two: every gap 0..60 in
    // both directions, every spelling (a shortcut that compares sizes instead of dividing goes wrong exactly here)
    for gap in 0..=60i64 {
        for k in 0..(if thorough { 12 } else { 4 }) {
            let lb = 1 + rng.gen_range(0..12usize);
            let bdig = match k % 4 { 0 => rand_digits(rng, lb), 1 => format!("{}", (1u64 << rng.gen_range(1..40)) + 1), 2 => "1".to_string(), _ => format!("{}", 1u64 << rng.gen_range(1..50)) };
            let bn: num_bigint::BigInt = bdig.parse().unwrap();
            let mult: i64 = [1, 1, 2, 3, 10, 7][rng.gen_range(0..6)];
            let extra: i64 = [0, 0, 1, -1][rng.gen_range(0..4)];
            let p10 = num_bigint::BigInt::from(10).pow(gap as u32);
            let sb = rng.gen_range(-6..=6i64);
            // a = mult * b (+- one unit in its last place), written with `gap` more (or fewer) fraction digits than b
            let (a, b) = if k % 2 == 0 {
                (parts_to_json(&(&bn * mult * &p10 + extra), sb + gap), parts_to_json(&bn, sb))
            } else {
                (parts_to_json(&(&bn * mult + extra), sb), parts_to_json(&(&bn * &p10), sb + gap))
            };
            for (x, y) in [(&a, &b), (&b, &a)] {
                if json_to_bigint(y) == num_bigint::BigInt::from(0) { continue; }
                for f in FORMS { tr.emit(json!({"op": "rem", "form": f, "a": x, "b": y})); }
            }
        }
    }
    let n = if thorough { 12000 } else { 2500 };
    let max_len = if thorough { 2000 } else { 400 };
    let mut gaps: Vec<i64> = (0..=45).collect();
    gaps.extend([255, 256, 257, 260, 275, 276, 300, 512, 530, 585, 590, 595, 1000, 1024, 1040, 4096, 9999, 10000]);
    for i in 0..n {
        let la = pick_len(rng, if i % 10 == 0 { max_len } else { 50 });
        let lb = pick_len(rng, if i % 10 == 1 { max_len } else { 50 });
        let gap = if thorough || i % 3 == 0 { gaps[rng.gen_range(0..gaps.len())] } else { rng.gen_range(0..=45) };
        let base = rng.gen_range(-30..=30i64);
        let (sa, sb) = if rng.gen_bool(0.5) { (base, base + gap) } else { (base + gap, base) };
        let da = shaped_digits(rng, la);
        let mut db = shaped_digits(rng, lb);
        if i % 13 == 0 { db = da.clone(); }
        if i % 17 == 0 { db = ["1", "2", "3", "7", "10"][rng.gen_range(0..5)].into(); }
        let mut a = dec(rng.gen_bool(0.5), &da, sa);
        let b = dec(rng.gen_bool(0.5), &db, sb);
        if json_to_bigint(&b) == num_bigint::BigInt::from(0) { continue; }
        if i % 19 == 0 {
            // a an exact multiple of b
            let k: num_bigint::BigInt = rng.gen_range(0..1000i64).into();
            a = parts_to_json(&(json_to_bigint(&b) * k), sb - rng.gen_range(0..3));
        }
        // every spelling on the same operands: each re-implements the alignment
        for f in FORMS {
            tr.emit(json!({"op": "rem", "form": f, "a": a, "b": b}));
        }
    }
}
