//! C09: remainder, five spellings, both directions of the scale gap.
use rand::rngs::StdRng;
use rand::Rng;
use serde_json::{json, Value};

use super::Tracer;
use crate::gen::*;
use crate::wire::*;

const FORMS: [&str; 5] = ["val_val", "val_ref", "ref_val", "ref_ref", "assign_ref"];

pub fn drive(tr: &mut Tracer, rng: &mut StdRng, thorough: bool) {
    for f in FORMS {
        for zsc in [0i64, 4, -3] {
            let l = pick_len(rng, 20);
            tr.emit(json!({"op": "rem", "form": f, "a": dec(rng.gen_bool(0.5), &shaped_digits(rng, l), rng.gen_range(-4..=4)), "b": dec(false, "0", zsc)}));
        }
    }
    let n = if thorough { 12000 } else { 2500 };
    let max_len = if thorough { 2000 } else { 400 };
    let mut gaps: Vec<i64> = (0..=45).collect();
    gaps.extend([255, 256, 257, 260, 275, 276, 300, 512, 530, 585, 590, 595, 1000, 1024, 1040, 4096, 9999, 10000]);
    for i in 0..n {
        let la = pick_len(rng, if i % 10 == 0 { max_len } else { 50 });
        let lb = pick_len(rng, if i % 10 == 1 { max_len } else { 50 });
        let gap = if thorough || i % 3 == 0 { gaps[rng.gen_range(0..gaps.len())] } else { rng.gen_range(0..=45) };
        let base = rng.gen_range(-30..=30i64);
        let (sa, sb) = if rng.gen_bool(0.5) { (base, base + gap) } else { (base + gap, base) };
        let da = shaped_digits(rng, la);
        let mut db = shaped_digits(rng, lb);
        if i % 13 == 0 { db = da.clone(); }
        if i % 17 == 0 { db = ["1", "2", "3", "7", "10"][rng.gen_range(0..5)].into(); }
        let mut a = dec(rng.gen_bool(0.5), &da, sa);
        let b = dec(rng.gen_bool(0.5), &db, sb);
        if json_to_bigint(&b) == num_bigint::BigInt::from(0) { continue; }
        if i % 19 == 0 {
            // a an exact multiple of b
            let k: num_bigint::BigInt = rng.gen_range(0..1000i64).into();
            a = parts_to_json(&(json_to_bigint(&b) * k), sb - rng.gen_range(0..3));
        }
        // every spelling on the same operands: each re-implements the alignment
        for f in FORMS {
            tr.emit(json!({"op": "rem", "form": f, "a": a, "b": b}));
        }
    }
}
