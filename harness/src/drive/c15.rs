//! C15: integer conversions.
use num_bigint::BigInt;
use rand::rngs::StdRng;
use rand::Rng;
use serde_json::{json, Value};

use super::c01::prim_bounds;
use super::Tracer;
use crate::gen::*;
use crate::wire::*;

const FORMS: [&str; 5] = ["i64", "i128", "u64", "u128", "bigint"];

fn all_conversions(tr: &mut Tracer, a: &Value, k: usize) {
    for (j, f) in FORMS.iter().enumerate() {
        tr.emit(json!({"op": "to_int", "form": f, "via": if (k + j) % 2 == 0 { "val" } else { "dref" }, "a": a}));
    }
    tr.emit(json!({"op": "is_integer", "a": a}));
}

pub fn drive(tr: &mut Tracer, rng: &mut StdRng, thorough: bool) {
    let mut k = 0usize;
    // neighbourhoods of every MIN / MAX: within +-2 and +-0.5, at several scales
    for ty in ["i64", "i128", "u64", "u128", "i32", "u32"] {
        let (lo, hi) = prim_bounds(ty);
        for base in [BigInt::from(lo), BigInt::from(hi), BigInt::from(0), BigInt::from(hi) + 1, BigInt::from(lo) - 1] {
            for d in -2i64..=2 {
                let n = &base + d;
                for sc in [0i64, 1, 2, 5, 19, 40] {
                    let p = BigInt::from(10).pow(sc as u32);
                    let half: BigInt = &p / 2;
                    for frac in [BigInt::from(0), BigInt::from(1), half.clone(), &p - 1, -half.clone(), -BigInt::from(1)] {
                        if sc == 0 && frac != BigInt::from(0) { continue; }
                        let v = &n * &p + &frac;
                        all_conversions(tr, &parts_to_json(&v, sc), k);
                        k += 1;
                    }
                }
                // negative scales that push a small unscaled value past a type limit
                for sc in [-1i64, -2, -18, -19, -20, -38, -39, -40] {
                    let p = BigInt::from(10).pow((-sc) as u32);
                    let small = &n / &p;
                    for dd in -1i64..=1 {
                        all_conversions(tr, &parts_to_json(&(&small + dd), sc), k);
                        k += 1;
                    }
                }
            }
        }
    }
    // fractions in (-1, 1), zeros with scales
    for sc in 1..=40i64 {
        for dg in ["1", "5", "9", "49", "99"] {
            if (dg.len() as i64) <= sc {
                for neg in [false, true] { all_conversions(tr, &dec(neg, dg, sc), k); k += 1; }
            }
        }
        all_conversions(tr, &dec(false, "0", sc), k);
        all_conversions(tr, &dec(false, "0", -sc), k + 1);
    }
    // random: 1..60 digits, scales -40..40
    for _ in 0..(if thorough { 60000 } else { 6000 }) {
        let len = rng.gen_range(1..=60);
        let a = dec(rng.gen_bool(0.5), &shaped_digits(rng, len), rng.gen_range(-40..=40));
        all_conversions(tr, &a, k);
        k += 1;
    }
    // construction from every primitive: MIN / MAX / 0 / +-1 and random
    for ty in ["i8", "i16", "i32", "i64", "i128", "u8", "u16", "u32", "u64", "u128"] {
        let (lo, hi) = prim_bounds(ty);
        let mut vals = vec![BigInt::from(lo), BigInt::from(hi), BigInt::from(0), BigInt::from(1)];
        if lo < 0 { vals.push(BigInt::from(-1)); vals.push(BigInt::from(lo) + 1); }
        for _ in 0..20 { vals.push(json_to_bigint(&super::c01::prim_value(rng, ty))); }
        for v in vals {
            tr.emit(json!({"op": "from_int", "form": ty, "v": bigint_to_json(&v)}));
            let fp = match ty { "i64" => Some("from_i64"), "u64" => Some("from_u64"), "i128" => Some("from_i128"), "u128" => Some("from_u128"), _ => None };
            if let Some(fp) = fp { tr.emit(json!({"op": "from_int", "form": fp, "v": bigint_to_json(&v)})); }
        }
    }
    for _ in 0..200 {
        let v = json_to_bigint(&super::c01::bigint_value(rng, 300));
        tr.emit(json!({"op": "from_int", "form": "bigint", "v": bigint_to_json(&v)}));
        tr.emit(json!({"op": "from_int", "form": "rbigint", "v": bigint_to_json(&v)}));
    }
}
