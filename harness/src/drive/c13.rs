//! C13: exp(x). Each evaluation costs the specification a rigorous interval enclosure (seconds),
//! so the inputs are few and chosen: integers, long digit strings, tiny magnitudes, neighbours of k*ln(10).
use rand::rngs::StdRng;
use rand::Rng;
use serde_json::{json, Value};

use super::Tracer;
use crate::gen::*;

const LN10: &str = "2302585092994045684017991454684364207601101488628772976033327900967572609677352480235997205089598298";

pub fn drive(tr: &mut Tracer, rng: &mut StdRng, thorough: bool) {
    // small shards: one enclosure takes seconds, the shards are validated in parallel
    let mut n = 0;
    let mut emit = |tr: &mut Tracer, a: Value| {
        tr.emit(json!({"op": "exp", "a": a}));
        n += 1;
        if n % (if thorough { 6 } else { 3 }) == 0 { tr.cut(); }
    };
    emit(tr, dec(false, "0", 0));
    emit(tr, dec(false, "0", 5));
    // integers
    let step = if thorough { 1 } else { 9 };
    let off = rng.gen_range(0..step);
    let mut k: i64 = -120 + off;
    while k <= 120 {
        emit(tr, dec(k < 0, &format!("{}", k.abs()), 0));
        k += step;
    }
    // the same arguments in other representations: negative scale (5e1), trailing zeros (50.00)
    let reps: Vec<i64> = if thorough { (-12..=12).collect() } else { vec![-12, -9, -5, -3, -1, 1, 3, 7, 11] };
    for t in reps {
        if t == 0 { continue; }
        emit(tr, dec(t < 0, &format!("{}", t.abs()), -1));
        emit(tr, dec(t < 0, &format!("{}00", t.abs() * 10), 2));
        if (thorough && t.abs() <= 10) || t.abs() == 1 { emit(tr, dec(t < 0, &format!("{}", t.abs()), -2)); }
    }
    // random arguments: 1..40 digits, magnitudes 1e-60 .. 1e3 (|x| <= 120 quick)
    let cnt = if thorough { 600 } else { 26 };
    for i in 0..cnt {
        let len = 1 + rng.gen_range(0..40);
        let digits = rand_digits(rng, len);
        // adjusted exponent of |x| in -60..=2
        let adj: i64 = match i % 4 { 0 => rng.gen_range(-60..=-3), 1 => rng.gen_range(-2..=0), _ => rng.gen_range(0..=2) };
        let mut sc = len as i64 - 1 - adj;
        let neg = rng.gen_bool(0.5);
        // keep |x| <= 120 (quick) / 1000 (thorough)
        let lead: i64 = digits[..len.min(4)].parse::<i64>().unwrap();
        let lim = if thorough { 1000 } else { 120 };
        if adj == 2 && lead * 10i64.pow(4 - len.min(4) as u32) / 10 > lim { sc += 1; }
        emit(tr, dec(neg, &digits, sc));
    }
    // long fractions with an ordinary magnitude: 55..130 digits after the point, |x| around 0.1 .. 99, also a short value
    // written with many trailing zeros (0.5 with scale 60)
    let cnt_long = if thorough { 40 } else { 5 };
    for i in 0..cnt_long {
        let len = rng.gen_range(55..=130);
        let adj: i64 = [-1, 0, 1, 0, -2][i % 5];
        let digits = if i % 5 == 3 { format!("{}{}", 1 + i % 9, "0".repeat(len - 1)) } else { rand_digits(rng, len) };
        emit(tr, dec(i % 2 == 1, &digits, len as i64 - 1 - adj));
    }
    // near k * ln(10), where e^x crosses a power of ten
    let ks: Vec<i64> = if thorough { (-50..=50).collect() } else { vec![-40, -9, -1, 1, 2, 17, 50] };
    for k in ks {
        if k == 0 { continue; }
        let v: num_bigint::BigUint = LN10.parse::<num_bigint::BigUint>().unwrap() * (k.unsigned_abs() as u32);
        let s = v.to_string();
        // truncate to 30..60 significant digits, +-1 in the last place
        let keep = rng.gen_range(30..=60).min(s.len());
        let sc = 99 - (s.len() - keep) as i64;
        let base: num_bigint::BigUint = s[..keep].parse().unwrap();
        for d in [0u32, 1] {
            let t = &base + d;
            emit(tr, crate::wire::parts_to_json(&(if k < 0 { -num_bigint::BigInt::from(t.clone()) } else { num_bigint::BigInt::from(t.clone()) }), sc));
        }
    }
    if thorough {
        for i in 0..30 {
            let mag = rng.gen_range(100..=1000);
            let frac = rand_digits(rng, 1 + i % 12);
            emit(tr, dec(i % 2 == 0, &format!("{}{}", mag, frac), frac.len() as i64));
        }
    }
}
