//! C05: parsing.
//!  (a) exhaustive enumeration of every string up to length 6 (quick) / 7 (thorough) over the alphabet
//!      {0,1,7,+,-,.,e,E,_,x,space}: only the strings some entry point ACCEPTS or PANICS on are recorded
//!      (the specification then requires each of them to be a numeral with exactly the parsed value);
//!  (b) grammar-generated long numerals, 64-bit exponent boundaries, byte-level mutations.
use rand::rngs::StdRng;
use rand::Rng;
use serde_json::{json, Value};

use super::Tracer;
use crate::gen::*;
use crate::wire::*;

const ALPHABET: [u8; 11] = [b'0', b'1', b'7', b'+', b'-', b'.', b'e', b'E', b'_', b'x', b' '];

fn not_err(r: &Value) -> bool {
    r.get("err").is_none()
}

fn enumerate(tr: &mut Tracer, buf: &mut Vec<u8>, maxlen: usize, n: &mut u64) {
    *n += 1;
    let t = bytes_to_json(buf);
    for api in ["from_str", "parse", "from_str_radix10"] {
        tr.emit_if(json!({"op": "parse", "api": api, "text": t}), not_err);
    }
    tr.emit_if(json!({"op": "parse", "api": "parse_bytes", "bytes": t}), not_err);
    // any radix other than 10 must yield an error value
    for radix in [2u32, 16, 36] {
        tr.emit_if(json!({"op": "parse", "api": "from_str_radix", "radix": radix, "text": t}), not_err);
        tr.emit_if(json!({"op": "parse", "api": "parse_bytes_radix", "radix": radix, "bytes": t}), not_err);
    }
    if buf.len() < maxlen {
        for c in ALPHABET {
            buf.push(c);
            enumerate(tr, buf, maxlen, n);
            buf.pop();
        }
    }
}

fn all_apis(tr: &mut Tracer, text: &str) {
    let t = text_to_json(text);
    for api in ["from_str", "parse", "from_str_radix10"] {
        tr.emit(json!({"op": "parse", "api": api, "text": t}));
    }
    tr.emit(json!({"op": "parse", "api": "parse_bytes", "bytes": bytes_to_json(text.as_bytes())}));
}

/// a numeral built from the grammar (with separators, optional point, optional exponent)
fn numeral(rng: &mut StdRng, max_len: usize) -> String {
    let mut s = String::new();
    match rng.gen_range(0..4) { 0 => s.push('+'), 1 => s.push('-'), _ => {} }
    let int_len = if rng.gen_range(0..6) == 0 { 0 } else { pick_len(rng, max_len) };
    let frac_len = if rng.gen_range(0..3) == 0 { 0 } else { pick_len(rng, max_len) };
    let und = rng.gen_range(0..4) == 0;
    let mut first_digit_seen = false;
    let mut push_digits = |s: &mut String, n: usize, rng: &mut StdRng| {
        for _ in 0..n {
            if und && first_digit_seen && rng.gen_range(0..7) == 0 { s.push('_'); }
            s.push((b'0' + rng.gen_range(0..10u8)) as char);
            first_digit_seen = true;
        }
    };
    if int_len == 0 && frac_len == 0 { push_digits(&mut s, 1, rng); }
    push_digits(&mut s, int_len, rng);
    if frac_len > 0 || rng.gen_range(0..5) == 0 { s.push('.'); }
    push_digits(&mut s, frac_len, rng);
    if rng.gen_range(0..2) == 0 {
        s.push(if rng.gen_bool(0.5) { 'e' } else { 'E' });
        match rng.gen_range(0..3) { 0 => s.push('+'), 1 => s.push('-'), _ => {} }
        let e: String = match rng.gen_range(0..8) {
            0 => format!("{}", rng.gen_range(0..20)),
            1 => format!("{}", rng.gen::<u32>()),
            2 => format!("{}", rng.gen::<u64>()),
            3 => format!("000{}", rng.gen_range(0..5000)),
            4 => format!("{}", (1u128 << 63) - 2 + rng.gen_range(0..5)),        // around 2^63
            5 => format!("{}", (1u128 << 63) - 2 + rng.gen_range(0..5) + (frac_len as u128)),
            6 => rand_digits(rng, 40),                                           // 40-digit exponent
            _ => format!("{}", rng.gen_range(0..400)),
        };
        s.push_str(&e);
    }
    s
}

fn mutate(rng: &mut StdRng, s: &str) -> Vec<u8> {
    let mut b = s.as_bytes().to_vec();
    let ins: &[&[u8]] = &[b"+", b"-", b".", b"_", b"e", b"E", b" ", b"\0", "\u{0661}".as_bytes(), "\u{ff11}".as_bytes(), b"\xff", b"x", b"\t", b"0"];
    for _ in 0..rng.gen_range(1..=2) {
        let pos = rng.gen_range(0..=b.len());
        match rng.gen_range(0..4) {
            0 if !b.is_empty() => { b.remove(pos.min(b.len() - 1)); }
            1 if !b.is_empty() => { let p = pos.min(b.len() - 1); b[p] = ins[rng.gen_range(0..ins.len())][0]; }
            _ => { let x = ins[rng.gen_range(0..ins.len())]; for (i, c) in x.iter().enumerate() { b.insert(pos + i, *c); } }
        }
    }
    b
}

pub fn drive(tr: &mut Tracer, rng: &mut StdRng, thorough: bool) {
    let maxlen = if thorough { 7 } else { 6 };
    let mut n = 0u64;
    let mut buf = vec![];
    enumerate(tr, &mut buf, maxlen, &mut n);
    tr.emit(json!({"op": "note", "what": "exhaustive-parse-enumeration", "strings": n, "maxlen": maxlen}));
    // (b) long numerals and boundary exponents
    let cnt = if thorough { 30000 } else { 4000 };
    let max_len = if thorough { 5000 } else { 1200 };
    for i in 0..cnt {
        let s = numeral(rng, if i % 20 == 0 { max_len } else { 40 });
        if i % 3 == 0 {
            all_apis(tr, &s);
        } else {
            let b = mutate(rng, &s);
            match std::str::from_utf8(&b) {
                Ok(t) => all_apis(tr, t),
                Err(_) => { tr.emit(json!({"op": "parse", "api": "parse_bytes", "bytes": bytes_to_json(&b), "utf8": false})); }
            }
        }
    }
    // non-ASCII characters, NUL and other oddities at every structural position of a numeral
    for base in ["12.5e3", "-.5", "+7.", "0.001E-2", "1_000.2_5"] {
        for ins in ["\u{0663}", "\u{e9}", "\u{ff15}", "\u{1d7d0}", "\0", "\u{2212}", "\u{a0}", "\u{66b}"] {
            for pos in 0..=base.len() {
                let mut s = String::from(base);
                s.insert_str(pos, ins);
                all_apis(tr, &s);
                // replacing the character at pos
                if pos < base.len() {
                    let mut t = String::from(&base[..pos]);
                    t.push_str(ins);
                    t.push_str(&base[pos + 1..]);
                    all_apis(tr, &t);
                }
            }
        }
    }
    // exponents exactly at the 64-bit scale boundary, with and without fraction digits
    let two63: i128 = 1 << 63;
    for d in -3i128..=3 {
        for (frac, fl) in [("", 0i128), (".5", 1), (".123", 3), ("._7", 1)] {
            for sign in ["", "-", "+"] {
                // scale = fl - exp ; boundaries scale = 2^63 - 1 (max) and -2^63 (min)
                all_apis(tr, &format!("{}1{}e{}", sign, frac, -(two63 - 1 + d) + fl));
                all_apis(tr, &format!("{}1{}e{}", sign, frac, two63 + d + fl));
                all_apis(tr, &format!("{}1{}E+{}", sign, frac, two63 + d + fl));
            }
        }
    }
    for e in ["170141183460469231731687303715884105727", "170141183460469231731687303715884105728", "-170141183460469231731687303715884105728", "-170141183460469231731687303715884105729", "99999999999999999999999999999999999999999"] {
        all_apis(tr, &format!("1e{}", e));
        all_apis(tr, &format!("0.{}1e{}", "0".repeat(30), e));
    }
}
