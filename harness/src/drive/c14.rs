//! C14: binary floats <-> decimals.
use rand::rngs::StdRng;
use rand::Rng;
use serde_json::{json, Value};

use super::Tracer;
use crate::gen::*;
use crate::wire::*;

fn bits(v: u64) -> Value { u128_to_json(v as u128) }

fn float_events(tr: &mut Tracer, b: u64, w: u32, i: usize) {
    let (f1, f2) = if w == 64 { ("try_from_f64", "from_f64") } else { ("try_from_f32", "from_f32") };
    tr.emit(json!({"op": "from_float", "form": if i % 2 == 0 { f1 } else { f2 }, "bits": bits(b), "w": w}));
    let rf = if w == 32 && i % 3 == 0 { "to_f32" } else if i % 2 == 0 { "to_f64" } else { "to_f64_dref" };
    tr.emit(json!({"op": "float_roundtrip", "form": rf, "bits": bits(b), "w": w}));
}

pub fn drive(tr: &mut Tracer, rng: &mut StdRng, thorough: bool) {
    let mut i = 0usize;
    // f32: every exponent field x boundary and random mantissas x both signs
    let nrand32 = if thorough { 40 } else { 3 };
    for e in 0..=255u64 {
        let mut mants: Vec<u64> = vec![0, 1, 1 << 22, (1 << 23) - 1, (1 << 23) - 2, 0x2AAAAA];
        for _ in 0..nrand32 { mants.push(rng.gen_range(0..(1u64 << 23))); }
        for m in mants {
            for s in [0u64, 1] {
                float_events(tr, (s << 31) | (e << 23) | m, 32, i);
                i += 1;
            }
        }
    }
    // f64: all 2048 exponent fields (thorough) / a spread with every boundary (quick)
    let exps: Vec<u64> = if thorough { (0..=2047).collect() } else {
        let mut v: Vec<u64> = vec![0, 1, 2, 52, 53, 1022, 1023, 1024, 1074, 1075, 1076, 1086, 1087, 1088, 1150, 1151, 1152, 2045, 2046, 2047];   // incl. the binades where the integer leaves u64 / u128
        for _ in 0..110 { v.push(rng.gen_range(0..=2047)); }
        v
    };
    let nrand64 = if thorough { 12 } else { 3 };
    for e in exps {
        let mut mants: Vec<u64> = vec![0, 1, 1 << 51, (1 << 52) - 1, 0x5555555555555];
        for _ in 0..nrand64 { mants.push(rng.gen_range(0..(1u64 << 52))); }
        for m in mants {
            for s in [0u64, 1] {
                float_events(tr, (s << 63) | (e << 52) | m, 64, i);
                i += 1;
            }
        }
    }
    // few-bit mantissas (short decimal expansions) over the binades around 1: values like 9.5, 0.09375, 950000000000000.5
    for e in (1023 - 45)..=(1023 + 70u64) {
        for top in 0..32u64 {
            let m = top << 47;
            float_events(tr, (e << 52) | m, 64, i);
            i += 1;
            if top % 4 == 1 { float_events(tr, (1 << 63) | (e << 52) | m | 1 << 20, 64, i); i += 1; }
        }
    }
    for e in (127 - 30)..=(127 + 40u64) {
        for top in 0..16u64 {
            float_events(tr, (e << 23) | (top << 19), 32, i);
            i += 1;
        }
    }
    // the lowest subnormals and the neighbours of the largest finite values
    for b in (0..70u64).chain(0x000F_FFFF_FFFF_FFF0..0x0010_0000_0000_0010).chain(0x7FEF_FFFF_FFFF_FFF0..0x7FF0_0000_0000_0002) {
        float_events(tr, b, 64, i);
        float_events(tr, b | (1 << 63), 64, i + 1);
        i += 2;
    }
    // random f64 bit patterns
    for _ in 0..(if thorough { 60000 } else { 1500 }) {
        float_events(tr, rng.gen::<u64>(), 64, i);
        i += 1;
    }
    // to_f64 of arbitrary decimals: 1..400 digits, exponents -400..400, around MAX / MIN_POSITIVE / the smallest subnormal
    let n = if thorough { 40000 } else { 2000 };
    for k in 0..n {
        let len = match k % 4 { 0 => rng.gen_range(1..=20), 1 => rng.gen_range(15..=30), 2 => rng.gen_range(1..=400), _ => rng.gen_range(1..=60) };
        let adj: i64 = match k % 6 { 0 => rng.gen_range(-400..=400), 1 => rng.gen_range(306..=310), 2 => rng.gen_range(-326..=-305), 3 => rng.gen_range(-30..=30), 4 => rng.gen_range(-400..=-300), _ => rng.gen_range(-400..=400) };
        let sc = len as i64 - 1 - adj;
        let a = dec(rng.gen_bool(0.5), &shaped_digits(rng, len), sc);
        tr.emit(json!({"op": "to_float", "form": if k % 2 == 0 { "val" } else { "dref" }, "a": a}));
    }
    // halfway cases between adjacent floats: (2m+1) * 2^(e-1), exactly and +- a far unit
    for k in 0..(if thorough { 4000 } else { 300 }) {
        let m: u64 = (1u64 << 52) | rng.gen_range(0..(1u64 << 52));
        let e: i64 = rng.gen_range(-1000..=900);
        // value = (2m+1) * 2^(e-1) written as a decimal
        let two = num_bigint::BigUint::from(2u8);
        let five = num_bigint::BigUint::from(5u8);
        let mm = num_bigint::BigUint::from(m) * 2u8 + 1u8;
        let (n, sc) = if e - 1 >= 0 { (mm * two.pow((e - 1) as u32), 0i64) } else { (mm * five.pow((1 - e) as u32), 1 - e) };
        let far = num_bigint::BigUint::from(10u8).pow(20);
        let cands = [n.clone(), &n * &far + 1u8, &n * &far - 1u8];
        let c = &cands[k % 3];
        let s2 = if k % 3 == 0 { sc } else { sc + 20 };
        tr.emit(json!({"op": "to_float", "form": "val", "a": parts_to_json(&num_bigint::BigInt::from(c.clone()), s2)}));
    }
    for d in ["17976931348623157", "17976931348623158", "17976931348623159", "1797693134862315708145274237317043567981", "18", "2"] {
        for neg in [false, true] {
            tr.emit(json!({"op": "to_float", "form": "val", "a": dec(neg, d, d.len() as i64 - 1 - 308)}));
        }
    }
    // scales far outside the f64 exponent range, up to the limits of the scale type ("an arbitrary decimal"): tiny values
    // convert to zero, huge ones to the infinity of their sign; zeros stay zero
    for sc in [2147483647i64, 2147483648, 2147483649, 3_000_000_000, 1_000_000_000_000_000, i64::MAX, i64::MAX - 1,
               -2147483647, -2147483648, -2147483649, -3_000_000_000, -1_000_000_000_000_000, i64::MIN + 1, i64::MIN + 40,
               400_000, -400_000, 1_000_000_000, -1_000_000_000] {
        for (i, d) in ["1", "5", "17976931348623157", "0", "99999999999999999999999999999999999999999999"].iter().enumerate() {
            for neg in [false, true] {
                tr.emit(json!({"op": "to_float", "form": if (i + neg as usize) % 2 == 0 { "val" } else { "dref" }, "a": dec(neg, d, sc)}));
            }
        }
    }
    for d in ["22250738585072014", "22250738585072013", "49406564584124654", "24703282292062327", "24703282292062328", "1", "5", "3"] {
        for neg in [false, true] {
            for adj in [-308i64, -323, -324, -325, -330, -400] {
                tr.emit(json!({"op": "to_float", "form": "dref", "a": dec(neg, d, d.len() as i64 - 1 - adj)}));
            }
        }
    }
}
