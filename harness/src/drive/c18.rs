//! C18: accessors, digit counting, canonical form, exact scale / precision extension.
use rand::rngs::StdRng;
use rand::Rng;
use serde_json::{json, Value};

use super::Tracer;
use crate::gen::*;

fn accessor_events(tr: &mut Tracer, a: &Value, full: bool) {
    tr.emit(json!({"op": "digits", "form": "digits", "a": a}));
    tr.emit(json!({"op": "digits", "form": "count_digits", "a": a}));
    tr.emit(json!({"op": "normalized", "a": a}));
    if full {
        for f in ["new", "from_bigint", "from_pair"] {
            tr.emit(json!({"op": "new", "form": f, "a": a}));
        }
        if a["s"].as_i64().unwrap() >= 0 {
            tr.emit(json!({"op": "new", "form": "from_biguint", "a": a}));
        }
        for f in ["as_bigint_and_exponent", "as_bigint_and_scale", "into_bigint_and_exponent", "into_bigint_and_scale", "to_ref_to_owned", "clone", "clone_into", "clone_into_equal"] {
            tr.emit(json!({"op": "parts", "form": f, "a": a}));
        }
        if a.get("e").and_then(|e| e.as_i64()) == Some(0) {
            tr.emit(json!({"op": "parts", "form": "ref_from_bigint", "a": a}));
        }
        for f in ["val", "dref"] {
            tr.emit(json!({"op": "sign", "form": f, "a": a}));
            tr.emit(json!({"op": "scale", "form": f, "a": a}));
            tr.emit(json!({"op": "is_zero", "form": f, "a": a}));
        }
    }
}

pub fn drive(tr: &mut Tracer, rng: &mut StdRng, thorough: bool) {
    let kmax: usize = if thorough { 5000 } else { 700 };
    // every power of ten, its predecessor and successor
    for k in 0..=kmax {
        let sc = rng.gen_range(-20..=20);
        let p = format!("1{}", "0".repeat(k));
        let pm = if k == 0 { "0".to_string() } else { "9".repeat(k) };
        let pp = if k == 0 { "2".to_string() } else { format!("1{}1", "0".repeat(k - 1)) };
        for (i, dg) in [p, pm, pp].iter().enumerate() {
            let a = dec(rng.gen_bool(0.5), dg, sc);
            accessor_events(tr, &a, k % 50 == 0);
            // exact extension across the three power-of-ten algorithms: by k digits
            if i == 0 || k % 7 == 0 {
                let x = dec(rng.gen_bool(0.5), &shaped_digits(rng, 1 + k % 23), sc);
                let form = if (k + i) % 2 == 0 { "with_scale" } else { "to_owned_with_scale" };
                tr.emit(json!({"op": "with_scale", "form": form, "a": x, "t": sc + k as i64}));
                let nd = 1 + k % 23;
                tr.emit(json!({"op": "with_prec", "a": x, "p": nd + k}));
            }
        }
    }
    // random decimals with long runs of trailing zeros
    let n = if thorough { 6000 } else { 1500 };
    let max_len = if thorough { 5000 } else { 900 };
    for i in 0..n {
        let len = pick_len(rng, max_len);
        let tz = if i % 3 == 0 { rng.gen_range(0..=max_len) } else { rng.gen_range(0..40) };
        let digits = format!("{}{}", shaped_digits(rng, len), "0".repeat(tz));
        let sc = if i % 5 == 0 { rng.gen_range(-6000..=6000) } else { rng.gen_range(-40..=40) };
        let a = dec(rng.gen_bool(0.5), &digits, sc);
        accessor_events(tr, &a, i % 4 == 0);
        let ext = if i % 4 == 1 { rng.gen_range(0..=max_len as i64) } else { rng.gen_range(0..30) };
        let form = if i % 2 == 0 { "with_scale" } else { "to_owned_with_scale" };
        tr.emit(json!({"op": "with_scale", "form": form, "a": a, "t": sc + ext}));
        tr.emit(json!({"op": "with_prec", "a": a, "p": digits.trim_start_matches('0').len().max(1) as i64 + ext}));
    }
    // zeros with any scale, wide scales
    for sc in [0i64, 1, -1, 7, -7, 5000, -5000, i64::MAX, i64::MIN, 1 << 40, -(1 << 40)] {
        let a = dec(false, "0", sc);
        accessor_events(tr, &a, true);
        // (at i64::MIN the normalised scale of a value with trailing zeros is not representable)
        let b = dec(true, if sc == i64::MIN { "127" } else { "120" }, sc);
        accessor_events(tr, &b, true);
    }
    for f in ["zero", "one", "default"] {
        tr.emit(json!({"op": "consts", "form": f}));
    }
}
