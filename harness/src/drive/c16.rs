//! C16: precision formatting and flags.
use rand::rngs::StdRng;
use rand::Rng;
use serde_json::{json, Value};

use super::c06::tie_digits;
use super::Tracer;
use crate::gen::*;

/// structured description of a flag string of exec5::FLAG_NAMES
pub fn flag_value(f: &str, w: usize) -> Value {
    let mut rest = f;
    let mut fill = 32u32;
    let mut align = "";
    for (pat, fc, al) in [("*<", 42u32, "<"), ("*^", 42, "^"), ("*>", 42, ">"), ("0<", 48, "<"), ("#>", 35, ">"), ("<", 32, "<"), ("^", 32, "^"), (">", 32, ">")] {
        if rest.starts_with(pat) {
            fill = fc;
            align = al;
            rest = &rest[pat.len()..];
            break;
        }
    }
    let plus = rest.starts_with('+');
    if plus { rest = &rest[1..]; }
    let zero = rest == "0";
    json!({"f": f, "w": w, "fill": fill, "align": align, "plus": plus, "zero": zero})
}

pub fn prec_events(tr: &mut Tracer, rng: &mut StdRng, a: &Value, n: usize, with_flags: bool) {
    let vf = if n % 2 == 0 { "val" } else { "dref" };
    tr.emit(json!({"op": "fmt", "kind": "display", "form": vf, "a": a, "N": n}));
    tr.emit(json!({"op": "fmt", "kind": if n % 2 == 0 { "lowerexp" } else { "upperexp" }, "form": vf, "a": a, "N": n}));
    if with_flags {
        let f = crate::exec5::FLAG_NAMES[rng.gen_range(0..crate::exec5::FLAG_NAMES.len())];
        let w = rng.gen_range(0..40);
        let kind = ["display", "lowerexp", "upperexp"][rng.gen_range(0..3)];
        tr.emit(json!({"op": "fmt", "kind": kind, "form": vf, "a": a, "N": n, "flags": flag_value(f, w)}));
    }
}

pub fn drive(tr: &mut Tracer, rng: &mut StdRng, thorough: bool) {
    // every flag combination, with and without precision
    for (k, f) in crate::exec5::FLAG_NAMES.iter().enumerate() {
        for w in [0usize, 1, 5, 12, 30] {
            let len = 1 + (k + w) % 9;
            let a = dec(rng.gen_bool(0.5), &rand_digits(rng, len), rng.gen_range(-4..=8));
            for kind in ["display", "lowerexp", "upperexp"] {
                tr.emit(json!({"op": "fmt", "kind": kind, "form": "val", "a": a, "flags": flag_value(f, w)}));
                tr.emit(json!({"op": "fmt", "kind": kind, "form": "dref", "a": a, "N": (k + w) % 7, "flags": flag_value(f, w)}));
            }
        }
    }
    // zeros (an integer zero obeys the padding limit too) and short integers right at the limit
    for n in [0usize, 1, 997, 998, 999, 1000, 1001, 1002, 1026] {
        for sc in [0i64, -3, 2] {
            prec_events(tr, rng, &dec(false, "0", sc), n, false);
        }
        prec_events(tr, rng, &dec(true, "42", 0), n, false);
        prec_events(tr, rng, &dec(false, "7", -10), n.saturating_sub(10), false);
    }
    // ties and near ties decided far away: N digits kept (the last one even or odd), then 5, a long run of zeros, then
    // nothing (exact tie) or one unit 30..90 places further down (just above the tie); the mirrored 4999...9 below it
    for i in 0..(if thorough { 1200 } else { 200 }) {
        let nn = i % 7;
        let il = 1 + i % 3;
        let head = rand_digits(rng, il + nn);
        let gap = 30 + (i * 7) % 61;
        let tail = match i % 3 { 0 => format!("5{}", "0".repeat(gap)), 1 => format!("5{}1", "0".repeat(gap)), _ => format!("4{}", "9".repeat(gap + 1)) };
        let digits = format!("{}{}", head, tail);
        let a = dec(i % 2 == 1, &digits, (nn + tail.len()) as i64);
        prec_events(tr, rng, &a, nn, i % 5 == 0);
    }
    // random: up to 300 digits, scales -1100..400, N in 0..1100, ties, all nines, tiny values
    let n = if thorough { 40000 } else { 6000 };
    for i in 0..n {
        let len = pick_len(rng, 300);
        let sc: i64 = match i % 5 { 0 => rng.gen_range(-1100..=400), 1 => rng.gen_range(-30..=0), _ => rng.gen_range(0..=60) };
        let nn: usize = match i % 6 {
            0 => rng.gen_range(0..=1100),
            1 => { // around the integer padding limit (1000 zeros including the fraction)
                let base = (1000 + sc.min(0)).max(0) as usize;
                (base as i64 + rng.gen_range(-3..=3)).max(0) as usize
            }
            _ => rng.gen_range(0..=12),
        };
        // aim ties at the rounding digit: digits kept = len - (sc - N)
        let keep = (len as i64 - (sc - nn as i64)).clamp(0, len as i64 + 2) as usize;
        let digits = match i % 4 { 0 => shaped_digits(rng, len), 1 => "9".repeat(len), _ => tie_digits(rng, len, keep.max(1)) };
        let a = if i % 47 == 0 { dec(false, "0", sc) } else { dec(rng.gen_bool(0.5), &digits, sc) };
        prec_events(tr, rng, &a, nn, i % 3 == 0);
        if i % 9 == 0 {
            // below half a unit of the last printed place
            let tiny = dec(rng.gen_bool(0.5), &rand_digits(rng, 1 + i % 5), nn as i64 + 1 + (i % 4) as i64 + (1 + i % 5) as i64);
            prec_events(tr, rng, &tiny, nn, false);
        }
    }
}
