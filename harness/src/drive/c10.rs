//! C10 / C11: square and cube roots; C12: reciprocal.
use num_bigint::BigUint;
use rand::rngs::StdRng;
use rand::Rng;
use serde_json::{json, Value};

use super::Tracer;
use crate::exec::MODES;
use crate::gen::*;
use crate::wire::*;

fn big(s: &str) -> BigUint { s.parse().unwrap() }
fn wire(n: &BigUint, neg: bool, scale: i64) -> Value {
    let b = num_bigint::BigInt::from(n.clone());
    parts_to_json(&if neg { -b } else { b }, scale)
}
fn pick_p(rng: &mut StdRng, i: usize) -> u64 {
    match i % 6 { 0 => rng.gen_range(1..=5), 1 => 100, 2 => rng.gen_range(1..=150), 3 => rng.gen_range(6..=40), 4 => [1, 2, 3, 16, 34, 101, 160][rng.gen_range(0..7)], _ => rng.gen_range(1..=30) }
}

/// inputs whose k-th root sits on or next to a representable p-digit value / a rounding midpoint
fn root_cases(rng: &mut StdRng, k: u32, p: u64, max_len: usize) -> Vec<(BigUint, i64)> {
    let mut out = vec![];
    // t: a p-digit (or p+1-digit ending in 5: midpoint) root candidate
    let t = big(&rand_digits(rng, p as usize));
    let tk = t.pow(k);
    let far = rng.gen_range(3..=60u32);
    let pow = BigUint::from(10u8).pow(far);
    out.push((tk.clone(), 0));                                  // perfect power
    out.push((&tk * &pow + 1u8, far as i64));                   // perfect power + 1 unit in a far-away digit
    out.push((&tk * &pow - 1u8, far as i64));                   // perfect power - 1 unit in a far-away digit
    let tm = &t * 10u8 + 5u8;                                   // midpoint between two p-digit values
    let tmk = tm.pow(k);
    out.push((tmk.clone(), k as i64));
    out.push((&tmk * &pow + 1u8, (k + far) as i64));
    out.push((&tmk * &pow - 1u8, (k + far) as i64));
    // roots with 5000..0x / 4999..9x tails: (t.5000x)^k and (t.4999x)^k, truncated
    for tail in ["50000001", "49999999", "00000001", "99999999"] {
        let tt = big(&format!("{}{}", t, tail));
        let ttk = tt.pow(k);
        out.push((ttk, (tail.len() as u32 * k) as i64));
    }
    // generic
    let len = pick_len(rng, max_len);
    out.push((big(&shaped_digits(rng, len)), 0));
    out
}

pub fn drive_sqrt(tr: &mut Tracer, rng: &mut StdRng, thorough: bool) {
    let n = if thorough { 4000 } else { 600 };
    let max_len = if thorough { 2000 } else { 500 };
    let forms = ["ctx", "dref_ctx", "dref_abs", "dref_copysign"];
    for i in 0..n {
        let p = pick_p(rng, i);
        for (x, sc0) in root_cases(rng, 2, p, max_len) {
            // scales of both parities, shifted by an even/odd amount
            let shift: i64 = if i % 5 == 0 { rng.gen_range(-2000..=2000) } else { rng.gen_range(-30..=30) };
            let sc = sc0 + shift;
            let m = MODES[rng.gen_range(0..7)];
            let form = forms[rng.gen_range(0..4)];
            let neg = (form == "dref_abs" || form == "dref_copysign") && rng.gen_bool(0.5);
            let a = wire(&x, neg, sc);
            if i % 7 == 0 {
                for m in MODES { tr.emit(json!({"op": "sqrt", "form": form, "a": a, "p": p, "m": m})); }
            } else {
                tr.emit(json!({"op": "sqrt", "form": form, "a": a, "p": p, "m": m}));
            }
            if i % 11 == 0 { tr.emit(json!({"op": "sqrt", "form": "default", "a": wire(&x, false, sc)})); }
        }
    }
    // inputs longer than 2(p+5) digits with both parities of digit count relative to the scale
    for i in 0..(if thorough { 3000 } else { 500 }) {
        let p = [1u64, 2, 3, 5, 10, 30, 100][i % 7];
        let len = 2 * (p as usize + 5) + rng.gen_range(1..=40);
        let a = dec(false, &shaped_digits(rng, len), rng.gen_range(-50..=50));
        tr.emit(json!({"op": "sqrt", "form": "ctx", "a": a, "p": p, "m": MODES[i % 7]}));
    }
    // negative => None, zero => zero
    for f in ["default", "ctx", "dref_ctx"] {
        tr.emit(json!({"op": "sqrt", "form": f, "a": dec(true, "4", 0), "p": 5, "m": "Up"}));
        tr.emit(json!({"op": "sqrt", "form": f, "a": dec(true, "1", 3), "p": 5, "m": "Up"}));
    }
    for f in ["default", "ctx", "dref_ctx", "dref_abs", "dref_copysign"] {
        for sc in [0i64, 3, -4, 7] {
            tr.emit(json!({"op": "sqrt", "form": f, "a": dec(false, "0", sc), "p": 5, "m": "Down"}));
            tr.emit(json!({"op": "sqrt", "form": f, "a": dec(false, &format!("1{}", "0".repeat(sc.max(0) as usize)), sc.max(0)), "p": 2, "m": "Down"}));
        }
    }
}

pub fn drive_cbrt(tr: &mut Tracer, rng: &mut StdRng, thorough: bool) {
    let n = if thorough { 4000 } else { 600 };
    let max_len = if thorough { 2000 } else { 500 };
    for i in 0..n {
        let p = pick_p(rng, i);
        for (x, sc0) in root_cases(rng, 3, p, max_len) {
            // all residues of the scale mod 3
            let shift: i64 = if i % 5 == 0 { rng.gen_range(-2000..=2000) } else { rng.gen_range(-30..=30) };
            let sc = sc0 + shift;
            let m = MODES[rng.gen_range(0..7)];
            let neg = rng.gen_bool(0.5);
            let a = wire(&x, neg, sc);
            if i % 7 == 0 {
                for m in MODES { tr.emit(json!({"op": "cbrt", "form": "ctx", "a": a, "p": p, "m": m})); }
                // mirror: the same magnitude with the other sign
                let b = wire(&x, !neg, sc);
                for m in ["Floor", "Ceiling"] { tr.emit(json!({"op": "cbrt", "form": "ctx", "a": b, "p": p, "m": m})); }
            } else {
                tr.emit(json!({"op": "cbrt", "form": "ctx", "a": a, "p": p, "m": m}));
            }
            if i % 11 == 0 { tr.emit(json!({"op": "cbrt", "form": "default", "a": a})); }
        }
    }
    for i in 0..(if thorough { 3000 } else { 500 }) {
        let p = [1u64, 2, 3, 5, 10, 30, 100][i % 7];
        let len = 3 * (p as usize + 4) + rng.gen_range(1..=40);
        let a = dec(rng.gen_bool(0.5), &shaped_digits(rng, len), rng.gen_range(-50..=50));
        tr.emit(json!({"op": "cbrt", "form": "ctx", "a": a, "p": p, "m": MODES[i % 7]}));
    }
    for sc in [0i64, 1, 2, 3, -1, -2, -3, 7] {
        tr.emit(json!({"op": "cbrt", "form": "ctx", "a": dec(false, "0", sc), "p": 5, "m": "Down"}));
        tr.emit(json!({"op": "cbrt", "form": "default", "a": dec(true, "1", sc)}));
    }
}

pub fn drive_inverse(tr: &mut Tracer, rng: &mut StdRng, thorough: bool) {
    let max_len = if thorough { 1500 } else { 400 };
    let emit_pair = |tr: &mut Tracer, x: &BigUint, sc: i64, p: u64, m: &str| {
        // x and -x under m and under the mirrored mode: one history group
        tr.emit(json!({"op": "reset"}));
        let mirror = match m { "Floor" => "Ceiling", "Ceiling" => "Floor", o => o };
        tr.emit(json!({"op": "inverse", "form": "ctx", "a": wire(x, false, sc), "p": p, "m": m}));
        tr.emit(json!({"op": "inverse", "form": "ctx", "a": wire(x, true, sc), "p": p, "m": mirror}));
    };
    // terminating reciprocals 2^i 5^j at and just above their exact length
    let (imax, jmax) = if thorough { (60u32, 30u32) } else { (24, 12) };
    for i in 0..=imax {
        for j in 0..=jmax {
            if !thorough && (i + j) % 2 == 1 && i > 6 { continue; }
            let x = BigUint::from(2u8).pow(i) * BigUint::from(5u8).pow(j);
            // 1/x = 5^i 2^j / 10^(i+j): number of significant digits of 5^i 2^j (trailing zeros removed)
            let y = BigUint::from(5u8).pow(i) * BigUint::from(2u8).pow(j);
            let ys = y.to_string();
            let exact_len = ys.trim_end_matches('0').len().max(1) as u64;
            for dp in [0i64, 1, 2, 3, 6, -1] {
                let p = (exact_len as i64 + dp).max(1) as u64;
                let sc = rng.gen_range(-20..=20);
                // every mode: a reciprocal that terminates must come out exact under all of them
                for m in MODES {
                    if !thorough && dp >= 3 && (m == "HalfUp" || m == "HalfDown") { continue; }
                    emit_pair(tr, &x, sc, p, m);
                }
            }
        }
    }
    // just above / below a power of ten: 99..9, 100..01; emphasis on p in 1..5 and p = 100
    for len in 1..=(if thorough { 130 } else { 40 }) {
        for x in [big(&"9".repeat(len)), big(&format!("1{}1", "0".repeat(len.saturating_sub(1)))), big(&format!("1{}", "0".repeat(len)))] {
            for p in [1u64, 2, 3, 4, 5, 100] {
                let m = MODES[rng.gen_range(0..7)];
                let sc = rng.gen_range(-2000..=2000);
                emit_pair(tr, &x, sc, p, m);
            }
        }
    }
    // random
    let n = if thorough { 12000 } else { 2000 };
    for i in 0..n {
        let len = pick_len(rng, if i % 8 == 0 { max_len } else { 40 });
        let x = big(&shaped_digits(rng, len));
        if x == BigUint::from(0u8) { continue; }
        let p = match i % 4 { 0 => rng.gen_range(1..=5), 1 => 100, _ => rng.gen_range(1..=150) };
        let sc = if i % 6 == 0 { rng.gen_range(-2000..=2000) } else { rng.gen_range(-40..=40) };
        let m = MODES[rng.gen_range(0..7)];
        emit_pair(tr, &x, sc, p, m);
        if i % 10 == 0 {
            tr.emit(json!({"op": "inverse", "form": "default", "a": wire(&x, rng.gen_bool(0.5), sc)}));
        }
        if i % 10 == 5 {
            // 1 / x with a primitive one routes to inverse()
            let f = ["i8_val", "u64_ref", "ri32_val", "ru128_ref", "i128_val", "u8_ref"][rng.gen_range(0..6)];
            tr.emit(json!({"op": "div", "form": f, "a": dec(false, "1", 0), "b": wire(&x, rng.gen_bool(0.5), sc)}));
        }
    }
    // bit lengths that drive the f64 initial guess through underflow (2^-1074 and below)
    for bits in [1000u64, 1020, 1022, 1023, 1024, 1070, 1074, 1075, 1076, 1100, 2000, 4000] {
        let x = (BigUint::from(1u8) << bits) + BigUint::from(rng.gen_range(0..1000u32));
        for p in [1u64, 3, 100] {
            emit_pair(tr, &x, rng.gen_range(-400..=400), p, MODES[rng.gen_range(0..7)]);
        }
    }
}
