//! C04: every textual rendering parses back to the same decimal.
use rand::rngs::StdRng;
use rand::Rng;
use serde_json::{json, Value};

use super::Tracer;
use crate::gen::*;

pub fn render_all(tr: &mut Tracer, a: &Value, plain_ok: bool, i: usize) {
    let vf = if i % 2 == 0 { "val" } else { "dref" };
    tr.emit(json!({"op": "fmt", "kind": "display", "form": vf, "a": a}));
    tr.emit(json!({"op": "fmt", "kind": "lowerexp", "form": vf, "a": a}));
    tr.emit(json!({"op": "fmt", "kind": "upperexp", "form": if i % 2 == 0 { "dref" } else { "val" }, "a": a}));
    let wf = if i % 3 == 0 { "write" } else { "string" };
    tr.emit(json!({"op": "fmt", "kind": "sci", "form": wf, "a": a}));
    tr.emit(json!({"op": "fmt", "kind": "eng", "form": wf, "a": a}));
    if plain_ok {
        tr.emit(json!({"op": "fmt", "kind": "plain", "form": wf, "a": a}));
    }
    if i % 5 == 0 {
        tr.emit(json!({"op": "fmt", "kind": "display", "form": "to_string", "a": a}));
        tr.emit(json!({"op": "fmt", "kind": "debug_alt", "form": "val", "a": a}));
        tr.emit(json!({"op": "fmt", "kind": "debug", "form": "val", "a": a}));
    }
}

pub fn drive(tr: &mut Tracer, rng: &mut StdRng, thorough: bool) {
    // 1. every scale in [-40, 60] for every digit length 1..40, several digit shapes, and zero
    let mut i = 0usize;
    for len in 1..=40usize {
        for sc in -40..=60i64 {
            let shapes: Vec<String> = vec![
                "9".repeat(len),
                format!("1{}", "0".repeat(len - 1)),
                rand_digits(rng, len),
                if len >= 2 { format!("{}0", rand_digits(rng, len - 1)) } else { "5".into() },
            ];
            let reps = if thorough { 4 } else { 2 };
            for k in 0..reps {
                let dg = &shapes[(i + k) % shapes.len()];
                let a = dec(rng.gen_bool(0.5), dg, sc);
                render_all(tr, &a, true, i);
                i += 1;
            }
        }
    }
    for sc in -60..=80i64 {
        render_all(tr, &dec(false, "0", sc), true, sc.unsigned_abs() as usize);
    }
    // 2. around the Display thresholds: 0.000ddd forms and integers with trailing zeros
    for len in [1usize, 2, 3, 7, 19, 20, 21, 40] {
        for lz in 0..=12i64 {
            let a = dec(rng.gen_bool(0.5), &rand_digits(rng, len), len as i64 + lz);
            render_all(tr, &a, true, lz as usize);
        }
        for tz in 0..=26i64 {
            let a = dec(rng.gen_bool(0.5), &rand_digits(rng, len), -tz);
            render_all(tr, &a, true, tz as usize);
        }
    }
    // 3. long digit strings, moderate scales (plain output stays below 10^4 characters)
    let n3 = if thorough { 3000 } else { 500 };
    let max_len = if thorough { 3000 } else { 800 };
    for k in 0..n3 {
        let len = pick_len(rng, max_len);
        let sc = rng.gen_range(-3000..=4000i64);
        let a = dec(rng.gen_bool(0.5), &shaped_digits(rng, len), sc);
        render_all(tr, &a, true, k);
    }
    // 4. huge scales (exponent formats only; plain notation would materialise the zeros)
    for k in 0..(if thorough { 3000 } else { 600 }) {
        let len = pick_len(rng, 60);
        let mag: i64 = match k % 6 {
            0 => 1_000_000_000_000_000,
            1 => 1_000_000_000_000_000 - rng.gen_range(0..100),
            2 => rng.gen_range(100_000..1_000_000_000_000_000),
            3 => 999_999_999_999_990 + rng.gen_range(0..10),   // (the property quantifies over |scale| <= 10^15)
            4 => (1i64 << 31) + rng.gen_range(-3..3),
            _ => rng.gen_range(10_000..100_000_000),
        };
        let sc = if rng.gen_bool(0.5) { mag } else { -mag };
        let a = if k % 17 == 0 { dec(false, "0", sc) } else { dec(rng.gen_bool(0.5), &shaped_digits(rng, len), sc) };
        render_all(tr, &a, false, k);
    }
}
