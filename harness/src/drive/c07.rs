//! C07: rounding to a precision, through every entry point.
use rand::rngs::StdRng;
use rand::Rng;
use serde_json::{json, Value};

use super::c06::tie_digits;
use super::Tracer;
use crate::exec::MODES;
use crate::gen::*;
use crate::wire::*;

pub fn drive(tr: &mut Tracer, rng: &mut StdRng, thorough: bool) {
    let n = if thorough { 60000 } else { 9000 };
    let max_len = if thorough { 3000 } else { 700 };
    let rforms = ["round_decimal", "round_decimal_ref_ref", "round_decimal_ref_dref", "round_with_context"];
    let aforms = ["add_refs_ref_ref", "add_refs_dref_dref", "add_refs_ref_dref", "add_refs_into_ref_ref", "add_refs_into_dref_ref"];
    for i in 0..n {
        let len = pick_len(rng, max_len);
        let sc: i64 = if i % 7 == 0 { rng.gen_range(-3000..=3000) } else { rng.gen_range(-30..=60) };
        // p around the digit count, or anywhere in 1..len+5
        let p: usize = match i % 4 {
            0 => (len as i64 + rng.gen_range(-1..=1)).max(1) as usize,
            _ => rng.gen_range(1..=len + 5),
        };
        let digits = if i % 3 == 0 { shaped_digits(rng, len) } else { tie_digits(rng, len, p) };
        let neg = rng.gen_bool(0.5);
        let a = if i % 53 == 0 { dec(false, "0", sc) } else { dec(neg, &digits, sc) };
        let m = MODES[rng.gen_range(0..7)];
        match i % 12 {
            0 | 1 => { tr.emit(json!({"op": "with_prec", "a": a, "p": p})); }
            2 => { for m in MODES { tr.emit(json!({"op": "with_precision_round", "a": a, "p": p, "m": m})); } }
            3 | 4 => { tr.emit(json!({"op": "ctx_round", "form": rforms[rng.gen_range(0..4)], "a": a, "p": p, "m": m})); }
            5 => {
                let b = dec(neg, &digits, 0);
                tr.emit(json!({"op": "ctx_round", "form": "round_decimal_ref_rbigint", "a": b, "p": p, "m": m}));
            }
            6 | 7 => {
                // sums whose exact value needs more than p digits
                let gap = rng.gen_range(0..=(len as i64 + 3));
                let blen = pick_len(rng, 60);
                let b = dec(rng.gen_bool(0.5), &shaped_digits(rng, blen), sc + if i % 2 == 0 { gap } else { -gap });
                tr.emit(json!({"op": "ctx_add", "form": aforms[rng.gen_range(0..5)], "a": a, "b": b, "p": p, "m": m}));
            }
            8 => {
                let ai = dec(neg, &digits, 0);
                let blen = pick_len(rng, 60);
                let b = dec(rng.gen_bool(0.5), &shaped_digits(rng, blen), rng.gen_range(-5..40));
                tr.emit(json!({"op": "ctx_add", "form": "add_refs_rbigint_ref", "a": ai, "b": b, "p": p, "m": m}));
            }
            _ => { tr.emit(json!({"op": "with_precision_round", "a": a, "p": p, "m": m})); }
        }
    }
    // coefficients at the machine-word boundaries of the digit counter: 10^19 .. 2^64, 10^38 .. 2^128, around 2^32
    for (lo, hi) in [(10u128.pow(19), u64::MAX as u128), (10u128.pow(38), u128::MAX), (10u128.pow(9), u32::MAX as u128), (10u128.pow(18), 10u128.pow(19) - 1)] {
        for k in 0..(if thorough { 120 } else { 30 }) {
            let v: u128 = match k % 4 { 0 => lo, 1 => hi, 2 => lo + rng.gen_range(0..1000), _ => lo + rng.gen::<u128>() % (hi - lo) };
            let digits = v.to_string();
            let a = dec(rng.gen_bool(0.5), &digits, rng.gen_range(-10..=25));
            for p in [1usize, 5, digits.len() - 2, digits.len() - 1, digits.len(), digits.len() + 1, digits.len() + 4] {
                let m = MODES[rng.gen_range(0..7)];
                tr.emit(json!({"op": "with_precision_round", "a": a, "p": p, "m": m}));
                tr.emit(json!({"op": "with_prec", "a": a, "p": p}));
                tr.emit(json!({"op": "ctx_round", "form": rforms[k % 4], "a": a, "p": p, "m": m}));
                tr.emit(json!({"op": "ctx_add", "form": aforms[k % 5], "a": a, "b": dec(false, "0", 0), "p": p, "m": m}));
            }
        }
    }
    // the digit counter on long coefficients: every power of ten 10^k and 10^k + 1 (the values a bit-length estimate of the
    // digit count is most easily one short on), rounded at, just below and far below their length, through every entry point
    let kmax = if thorough { 3000 } else { 720 };
    let mut k = 19usize;
    while k <= kmax {
        for plus in [0u8, 1] {
            let digits = if plus == 0 { format!("1{}", "0".repeat(k)) } else { format!("1{}1", "0".repeat(k - 1)) };
            let len = k + 1;
            let a = dec((k + plus as usize) % 2 == 1, &digits, (k as i64 % 37) - 12);
            let m = MODES[(k + plus as usize) % 7];
            for p in [len - 1, len, 5 + k % 9] {
                match (k + p) % 4 {
                    0 => { tr.emit(json!({"op": "with_precision_round", "a": a, "p": p, "m": m})); }
                    1 => { tr.emit(json!({"op": "with_prec", "a": a, "p": p})); }
                    2 => { tr.emit(json!({"op": "ctx_round", "form": rforms[k % 4], "a": a, "p": p, "m": m})); }
                    _ => { tr.emit(json!({"op": "ctx_add", "form": aforms[k % 5], "a": a, "b": dec(false, "0", 0), "p": p, "m": m})); }
                }
            }
            tr.emit(json!({"op": "with_precision_round", "a": a, "p": len - 1, "m": "Up"}));
            tr.emit(json!({"op": "with_prec", "a": a, "p": len + 3}));
        }
        k += if k < 720 { 1 } else { 7 };
    }
    // a tiny addend far below the p-th digit still decides directed roundings
    for k in 0..(if thorough { 2000 } else { 400 }) {
        let la = rng.gen_range(1..=12usize);
        let p = la + rng.gen_range(0..=6);
        let far = (p - la) as i64 + rng.gen_range(2..=40);
        let sa = rng.gen_range(-8..=8i64);
        let a = dec(rng.gen_bool(0.5), &shaped_digits(rng, la), sa);
        let lb = pick_len(rng, 6);
        let b = dec(rng.gen_bool(0.5), &shaped_digits(rng, lb), sa + far + lb as i64);
        let m = ["Up", "Down", "Ceiling", "Floor", "HalfUp", "HalfEven", "HalfDown"][k % 7];
        tr.emit(json!({"op": "ctx_add", "form": aforms[k % 5], "a": a, "b": b, "p": p, "m": m}));
        tr.emit(json!({"op": "ctx_add", "form": aforms[(k + 1) % 5], "a": b, "b": a, "p": p, "m": m}));
    }
    // precision-to-scale conversion near its overflow guards: the only acceptable outcomes are the
    // correctly rounded value or the documented "precision overflow" panic
    let big = |v: u128| u128_to_json(v);
    for (digits, sc, p) in [
        ("12345", 5i64, u64::MAX as u128), ("12345", 5, (i64::MAX as u128) + 1),
        ("1", i64::MAX, 2), ("1", i64::MAX - 1, 3), ("123", i64::MIN, 2), ("999", i64::MIN + 1, 1), ("5", i64::MAX - 3, 5),
        ("1", 1i64 << 62, 2), ("1", 1i64 << 62, 1), ("123", -(1i64 << 62), 2), ("995", -(1i64 << 62), 2), ("5", (1i64 << 62) - 3, 4),
    ] {
        for m in ["HalfEven", "Up", "Down"] {
            for neg in [false, true] {
                tr.emit(json!({"op": "with_precision_round", "a": dec(neg, digits, sc), "P": big(p), "m": m}));
            }
        }
    }
    for f in ["new", "with_precision", "with_prec", "with_rounding_mode"] {
        for m in MODES {
            tr.emit(json!({"op": "ctx_setters", "form": f, "p": rng.gen_range(1..100000), "m": m}));
        }
    }
}
