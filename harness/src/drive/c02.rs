//! C02: comparison. Value-equal pairs across scale gaps, one-ulp neighbours, 32-bit word overflow
//! boundaries, u64/u128 fast-path limits, 64-bit scale differences.
use num_bigint::{BigInt, BigUint};
use num_traits::{One, Zero};
use rand::rngs::StdRng;
use rand::Rng;
use serde_json::{json, Value};

use super::Tracer;
use crate::exec3::CMP_FORMS;
use crate::gen::*;
use crate::wire::*;

fn wire(n: &BigUint, neg: bool, scale: i64) -> Value {
    let b = BigInt::from(n.clone());
    parts_to_json(&if neg { -b } else { b }, scale)
}

pub fn all_forms(tr: &mut Tracer, a: &Value, b: &Value) {
    for f in CMP_FORMS {
        tr.emit(json!({"op": "cmp", "form": f, "a": a, "b": b}));
    }
}
pub fn some_forms(tr: &mut Tracer, rng: &mut StdRng, a: &Value, b: &Value) {
    // equality and ordering on values and on references, in both directions
    let i = rng.gen_range(0..4);
    for f in [["eq_val", "cmp_val"], ["eq_dref", "cmp_dref"], ["eq_dref_ref", "lt_val"], ["ne_val", "partial_cmp_dref"]][i] {
        tr.emit(json!({"op": "cmp", "form": f, "a": a, "b": b}));
        tr.emit(json!({"op": "cmp", "form": f, "a": b, "b": a}));
    }
}

fn pow10(k: u32) -> BigUint {
    BigUint::from(10u8).pow(k)
}

/// pairs around x vs x*10^k: equal, +-1 unit, differing in a single 32-bit word, truncated to fewer words
fn scaled_family(tr: &mut Tracer, rng: &mut StdRng, x: &BigUint, k: u32, base_scale: i64, neg: bool, full: bool) {
    let y = x * pow10(k);
    let a = wire(x, neg, base_scale);
    let mut ys: Vec<BigUint> = vec![y.clone(), &y + 1u8];
    if !y.is_zero() { ys.push(&y - 1u8); }
    let words = y.to_u32_digits();
    let n = words.len();
    // y +- 2^(32 j): only one 32-bit word differs (and the carry/borrow chain above it)
    for j in 0..n.min(5) {
        let w = BigUint::one() << (32 * j);
        ys.push(&y + &w);
        if y > w { ys.push(&y - &w); }
    }
    // the top word removed / one extra top word: low words identical
    if n >= 2 { ys.push(BigUint::new(words[..n - 1].to_vec())); }
    ys.push(&y + (BigUint::one() << (32 * n)));
    if n >= 1 { ys.push(&y - (BigUint::from(words[n - 1] / 2 + 1) << (32 * (n - 1)))); }
    // a non-zero digit right below the last place of the scaled operand, followed by zeros: y + d * 10^(k-1) - shifted view
    if k >= 1 {
        let half = pow10(k - 1);
        ys.push(&y + &half * 5u8);
        ys.push(&y + &half);
        if y > half { ys.push(&y - &half); }
    }
    for yy in ys {
        let b = wire(&yy, neg, base_scale + k as i64);
        if full { all_forms(tr, &a, &b); all_forms(tr, &b, &a); } else { some_forms(tr, rng, &a, &b); }
    }
}

pub fn drive(tr: &mut Tracer, rng: &mut StdRng, thorough: bool) {
    // 1. 32-bit words at the multiplication / carry overflow boundaries floor(2^64 / 10^k) + {-1,0,1}
    let two64 = BigUint::one() << 64;
    for k in 1..=19u32 {
        let q = &two64 / pow10(k);
        for delta in [-1i64, 0, 1] {
            let qd: BigUint = if delta < 0 { &q - 1u8 } else { &q + (delta as u8) };
            let wmax = BigUint::from(u32::MAX);
            let w: u32 = if qd > wmax { u32::MAX } else { qd.to_u32_digits().first().copied().unwrap_or(0) };
            // also the 32-bit quantity floor(2^32/10^k)-ish boundaries and plain near-max words
            for wv in [w, w.wrapping_add(1), (u32::MAX as u64 / 10u64.pow(k.min(9))) as u32, u32::MAX, u32::MAX - 1, 1844674407u32] {
                for pos in 0..4usize {
                    let nwords = if thorough { 4 } else { pos + 1 };
                    for fill in 0..3 {
                        let mut ws: Vec<u32> = (0..nwords.max(pos + 1)).map(|_| match fill { 0 => 0, 1 => wv, _ => rng.gen() }).collect();
                        ws[pos] = wv;
                        let x = BigUint::new(ws);
                        if x.is_zero() { continue; }
                        let (bs, ng) = (rng.gen_range(-5..=5), rng.gen_bool(0.3));
                        scaled_family(tr, rng, &x, k, bs, ng, false);
                    }
                }
            }
        }
    }
    // 2. value-equal pairs with gap 1..19 and >= 20; one-ulp neighbours; random lengths
    let n2 = if thorough { 6000 } else { 1200 };
    let max_len = if thorough { 3000 } else { 600 };
    for i in 0..n2 {
        let len = pick_len(rng, max_len);
        let x: BigUint = shaped_digits(rng, len).parse().unwrap();
        let k: u32 = match i % 4 { 0 => rng.gen_range(1..=19), 1 => rng.gen_range(20..=45), 2 => rng.gen_range(1..=3), _ => rng.gen_range(20..=400) };
        let (bs, ng) = (rng.gen_range(-50..=50), rng.gen_bool(0.5));
        scaled_family(tr, rng, &x, k, bs, ng, i % 50 == 0);
    }
    // 2b. every scale difference up to 1100 with coefficients that are (nearly) powers of two: the bit-length
    //     prefilter estimates bits(b * 10^k) from k * log2(10)
    for k in 20..=(if thorough { 1100u32 } else { 700 }) {
        let j = rng.gen_range(0..200u32);
        for x in [BigUint::one(), BigUint::one() << j, (BigUint::one() << j) + 1u8, (BigUint::one() << j) - 1u8, BigUint::from(3u8), BigUint::from(rng.gen_range(1..1000u32))] {
            if x.is_zero() { continue; }
            let y = &x * pow10(k);
            let a = wire(&x, false, 0);
            for yy in [y.clone(), &y + 1u8] {
                let b = wire(&yy, false, k as i64);
                let f = ["eq_val", "cmp_val", "eq_dref", "cmp_dref"][(k as usize) % 4];
                tr.emit(json!({"op": "cmp", "form": f, "a": a, "b": b}));
                tr.emit(json!({"op": "cmp", "form": f, "a": b, "b": a}));
            }
        }
    }
    // 3. operands straddling the u64 / u128 fast-path limits before and after scaling
    for lim in [BigUint::from(u64::MAX), BigUint::from(u128::MAX), BigUint::from(u32::MAX)] {
        for k in 0..=39u32 {
            let b0 = &lim / pow10(k);
            for db in [0u8, 1, 2] {
                for sub in [false, true] {
                    let bb = if sub { if b0 > BigUint::from(db) { &b0 - db } else { continue } } else { &b0 + db };
                    for da in [0u8, 1] {
                        for a0 in [&lim + da, &lim - da, &bb * pow10(k), &bb * pow10(k) + 1u8] {
                            let a = wire(&a0, false, 3);
                            let b = wire(&bb, false, 3 - k as i64);
                            some_forms(tr, rng, &a, &b);
                        }
                    }
                }
            }
        }
    }
    // 4. scales whose difference is around / beyond 2^63 (and i64 extremes), both signs, zeros
    let big_scales: [i64; 10] = [i64::MIN, i64::MIN + 1, -(1 << 62), -1, 0, 1, 1 << 62, i64::MAX - 1, i64::MAX, (1 << 62) + 7];
    for &s1 in &big_scales {
        for &s2 in &big_scales {
            for (da, db) in [("1", "1"), ("5", "3"), ("123456789012345678901234567890", "7"), ("9", "10")] {
                for (na, nb) in [(false, false), (true, true), (false, true), (true, false)] {
                    let a = dec(na, da, s1);
                    let b = dec(nb, db, s2);
                    all_forms(tr, &a, &b);
                }
            }
            let z = dec(false, "0", s1);
            let o = dec(false, "1", s2);
            all_forms(tr, &z, &o);
            all_forms(tr, &z, &dec(false, "0", s2));
        }
    }
    // 5. random pairs with equal adjusted exponent (deep digit comparison), large
    let n5 = if thorough { 5000 } else { 1000 };
    for _ in 0..n5 {
        let la = pick_len(rng, max_len);
        let lb = pick_len(rng, max_len);
        let sa = rng.gen_range(-100..=100i64);
        let sb = sa + lb as i64 - la as i64;      // same adjusted exponent
        let da = shaped_digits(rng, la);
        let mut db = shaped_digits(rng, lb);
        if rng.gen_bool(0.5) {
            // common prefix
            let k = la.min(lb);
            let cut = rng.gen_range(0..=k);
            db = format!("{}{}", &da[..cut], &db[cut..]);
        }
        let neg = rng.gen_bool(0.5);
        let a = dec(neg, &da, sa);
        let b = dec(if rng.gen_range(0..10) == 0 { !neg } else { neg }, &db, sb);
        some_forms(tr, rng, &a, &b);
    }
    // 6. max/min/sort
    let n6 = if thorough { 4000 } else { 800 };
    for i in 0..n6 {
        let k = rng.gen_range(2..=9);
        let mut xs = vec![];
        for _ in 0..k {
            let l = pick_len(rng, 30);
            let x = dec(rng.gen_bool(0.5), &shaped_digits(rng, l), rng.gen_range(-6..=6));
            xs.push(x.clone());
            if rng.gen_range(0..3) == 0 {
                // an equal value in another representation
                let g = rng.gen_range(1..25u32);
                let n: BigUint = json_to_bigint(&x).magnitude() * pow10(g);
                xs.push(wire(&n, x["s"].as_i64().unwrap() < 0, x["e"].as_i64().unwrap() + g as i64));
            }
        }
        let sf = ["sort", "sort_unstable", "sort_dref"][i % 3];
        let mf = ["max", "min", "max_dref", "min_dref"][i % 4];
        tr.emit(json!({"op": "sort", "form": sf, "xs": xs}));
        tr.emit(json!({"op": "maxmin", "form": mf, "a": xs[0], "b": xs[1]}));
    }
}
