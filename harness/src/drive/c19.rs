//! C19: harness-generated programs (impl -> spec): the same program shape as spec/Gen_Programs.tla, but with
//! large random operands and pool specials TLC does not enumerate. Every step is judged by the specification.
use rand::rngs::StdRng;
use rand::Rng;
use serde_json::{json, Value};

use super::c01::{bigint_value, prim_value};
use super::Tracer;
use crate::forms::{self, form_kinds, is_dec_kind};
use crate::gen::*;

const NREG: usize = 6;

fn pool_value(rng: &mut StdRng, max_len: usize) -> (Value, usize, usize) {
    let sc: i64 = rng.gen_range(-40..=40);
    let (v, len) = match rng.gen_range(0..10) {
        0 => (dec(false, "0", sc), 1),
        1 => { let k = sc.max(0) as usize; (dec(rng.gen_bool(0.3), &format!("1{}", "0".repeat(k)), k as i64), k + 1) }   // one written 1.00
        2 => { let k = rng.gen_range(0..30); (dec(false, &format!("1{}", "0".repeat(k)), sc), k + 1) }                   // power of ten
        3 => (dec(rng.gen_bool(0.5), "1", sc), 1),
        _ => { let len = pick_len(rng, max_len); (dec(rng.gen_bool(0.5), &shaped_digits(rng, len), sc), len) }
    };
    (v, len, sc.unsigned_abs() as usize)
}

pub fn drive(tr: &mut Tracer, rng: &mut StdRng, thorough: bool) {
    let nprog = if thorough { 6000 } else { 500 };
    let max_len = if thorough { 400 } else { 150 };
    let maxdig = 1500usize;
    let fa = forms::all_forms("add");
    let fs = forms::all_forms("sub");
    let fm = forms::all_forms("mul");
    // form sweeps: a long program in which EVERY overload of + - * meets operands that earlier steps produced, starting from
    // the special representations (one written 1.00, zero carrying a scale, powers of ten, twins)
    let specials = [dec(false, "100", 2), dec(false, "0", 7), dec(false, "10", -1), dec(true, "1000", 3), dec(false, "25", 1), dec(false, "1", 0)];
    for sweep in 0..(if thorough { 40 } else { 6 }) {
        for (op, fl) in [("mul", &fm), ("add", &fa), ("sub", &fs)] {
            tr.reserve(fl.len() + 40);
            tr.emit(json!({"op": "reset"}));
            for r in 1..=NREG { tr.emit(json!({"op": "load", "dst": r, "a": specials[(r - 1 + sweep) % 6]})); }
            // register 1 is re-loaded with a special every few steps so that products do not drift away from one / zero
            for (i, f) in fl.iter().enumerate() {
                let (lk, rk) = form_kinds(f);
                let a = 1 + (i + sweep) % NREG;
                let b = 1 + (i / NREG + 2 * sweep) % NREG;
                let av = if is_dec_kind(&lk) { json!({"r": a}) } else if lk.ends_with("bigint") { dec(i % 3 == 0, ["1", "7", "0", "10"][i % 4], 0) } else { dec(false, ["1", "2", "0", "10"][i % 4], 0) };
                let bv = if is_dec_kind(&rk) { json!({"r": b}) } else if rk.ends_with("bigint") { dec(i % 5 == 0, ["7", "1", "10", "0"][i % 4], 0) } else { dec(false, ["2", "1", "10", "0"][i % 4], 0) };
                let dst = if lk == "assign" { a } else { 1 + (i + 3) % NREG };
                tr.emit(json!({"op": op, "form": f, "a": av, "b": bv, "dst": dst}));
                if i % 9 == 8 {
                    // keep the magnitudes small: normalise / reload
                    tr.emit(json!({"op": "load", "dst": dst, "a": specials[(i + sweep) % 6]}));
                }
            }
        }
    }
    for _ in 0..nprog {
        tr.reserve(50);
        tr.emit(json!({"op": "reset"}));
        let mut dg = [1usize; NREG + 1];
        let mut sc = [0usize; NREG + 1];
        for r in 1..=NREG {
            // value-equal twins now and then: the same value in another representation is made by rescaling later
            let (v, l, s) = pool_value(rng, max_len);
            tr.emit(json!({"op": "load", "dst": r, "a": v}));
            dg[r] = l;
            sc[r] = s;
        }
        let len = rng.gen_range(1..=40);
        for _ in 0..len {
            let a = rng.gen_range(1..=NREG);
            let b = rng.gen_range(1..=NREG);
            let d = rng.gen_range(1..=NREG);
            match rng.gen_range(0..20) {
                0..=9 => {
                    let (op, fl) = match rng.gen_range(0..3) { 0 => ("add", &fa), 1 => ("sub", &fs), _ => ("mul", &fm) };
                    let f = &fl[rng.gen_range(0..fl.len())];
                    let (lk, rk) = form_kinds(f);
                    let mk = |rng: &mut StdRng, k: &str, r: usize| -> (Value, usize, usize) {
                        if is_dec_kind(k) { (json!({"r": r}), dg[r], sc[r]) }
                        else if k.ends_with("bigint") { (bigint_value(rng, 30), 30, 0) }
                        else { (prim_value(rng, k.trim_start_matches('r')), 39, 0) }
                    };
                    let (av, da, sa) = mk(rng, &lk, a);
                    let (bv, db, sb) = mk(rng, &rk, b);
                    let dst = if lk == "assign" { a } else { d };
                    let (ndg, nsc) = if op == "mul" { (da + db, sa + sb) } else { (da.max(db) + sa + sb + 1, sa.max(sb)) };
                    if ndg > maxdig || nsc > maxdig { continue; }
                    tr.emit(json!({"op": op, "form": f, "a": av, "b": bv, "dst": dst}));
                    dg[dst] = ndg;
                    sc[dst] = nsc;
                }
                10 => { let f = ["val", "ref", "dref"][rng.gen_range(0..3)]; tr.emit(json!({"op": "neg", "form": f, "a": {"r": a}, "dst": d})); dg[d] = dg[a]; sc[d] = sc[a]; }
                11 => { let f = ["method", "signed", "dref"][rng.gen_range(0..3)]; tr.emit(json!({"op": "abs", "form": f, "a": {"r": a}, "dst": d})); dg[d] = dg[a]; sc[d] = sc[a]; }
                12 => { tr.emit(json!({"op": "double", "a": {"r": a}, "dst": d})); dg[d] = dg[a] + 1; sc[d] = sc[a]; }
                13 => { tr.emit(json!({"op": "half", "a": {"r": a}, "dst": d})); dg[d] = dg[a] + 1; sc[d] = sc[a] + 1; }
                14 => { if 2 * dg[a] > maxdig || 2 * sc[a] > maxdig { continue; } tr.emit(json!({"op": "square", "a": {"r": a}, "dst": d})); dg[d] = 2 * dg[a]; sc[d] = 2 * sc[a]; }
                15 => { let dt = rng.gen_range(0..25usize); if dg[a] + dt > maxdig { continue; }
                        let f = if rng.gen_bool(0.5) { "with_scale" } else { "to_owned_with_scale" };
                        tr.emit(json!({"op": "with_scale", "form": f, "a": {"r": a}, "dt": dt, "dst": d})); dg[d] = dg[a] + dt; sc[d] = sc[a] + dt; }
                16 => { tr.emit(json!({"op": "normalized", "a": {"r": a}, "dst": d})); dg[d] = dg[a]; sc[d] = sc[a] + dg[a]; }
                17 => { let c = rng.gen_range(1..=NREG); let ndg = dg[a].max(dg[b]).max(dg[c]) + sc[a] + sc[b] + sc[c] + 2; if ndg > maxdig { continue; }
                        let f = if rng.gen_bool(0.5) { "owned" } else { "refs" };
                        tr.emit(json!({"op": "sum", "form": f, "xs": [{"r": a}, {"r": b}, {"r": c}], "dst": d})); dg[d] = ndg; sc[d] = sc[a].max(sc[b]).max(sc[c]); }
                18 => { let f = ["eq_val", "cmp_val", "eq_dref", "cmp_dref", "le_val", "ne_dref"][rng.gen_range(0..6)]; tr.emit(json!({"op": "cmp", "form": f, "a": {"r": a}, "b": {"r": b}})); }
                _ => { tr.emit(json!({"op": "hash", "a": {"r": a}})); }
            }
        }
    }
}
