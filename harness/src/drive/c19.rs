//! C19: harness-generated programs (impl -> spec): the same program shape as spec/Gen_Programs.tla, but with
//! large random operands and pool specials TLC does not enumerate. Every step is judged by the specification.
use rand::rngs::StdRng;
use rand::Rng;
use serde_json::{json, Value};

use super::c01::{bigint_value, prim_value};
use super::Tracer;
use crate::forms::{self, form_kinds, is_dec_kind};
use crate::gen::*;

const NREG: usize = 6;

fn pool_value(rng: &mut StdRng, max_len: usize) -> (Value, usize, usize) {
    let sc: i64 = rng.gen_range(-40..=40);
    let (v, len) = match rng.gen_range(0..10) {
        0 => (dec(false, "0", sc), 1),
        1 => { let k = sc.max(0) as usize; (dec(rng.gen_bool(0.3), &format!("1{}", "0".repeat(k)), k as i64), k + 1) }   // one written 1.00
        2 => { let k = rng.gen_range(0..30); (dec(false, &format!("1{}", "0".repeat(k)), sc), k + 1) }                   // power of ten
        3 => (dec(rng.gen_bool(0.5), "1", sc), 1),
        _ => { let len = pick_len(rng, max_len); (dec(rng.gen_bool(0.5), &shaped_digits(rng, len), sc), len) }
    };
    (v, len, sc.unsigned_abs() as usize)
}

pub fn drive(tr: &mut Tracer, rng: &mut StdRng, thorough: bool) {
    let nprog = if thorough { 6000 } else { 500 };
    let max_len = if thorough { 400 } else { 150 };
    let maxdig = 1500usize;
    let fa = forms::all_forms("add");
    let fs = forms::all_forms("sub");
    let fm = forms::all_forms("mul");
    // form sweeps: EVERY overload of + - * applied to an operand that an earlier step of the same program COMPUTED and that
    // carries a special representation: a one produced as 0.5 + 0.5 (1.0) or 2.5 * 0.4 (1.00), a zero produced as x - x
    // (zero carrying a scale), a power of ten produced as 2.5 * 4 (10.0); once as left and once as right operand
    for sweep in 0..(if thorough { 12 } else { 3 }) {
        for (op, fl) in [("mul", &fm), ("add", &fa), ("sub", &fs)] {
            for (i, f) in fl.iter().enumerate() {
                let (lk, rk) = form_kinds(f);
                tr.reserve(12);
                tr.emit(json!({"op": "reset"}));
                let other = dec(rng.gen_bool(0.5), &rand_digits(rng, 1 + (i + sweep) % 18), rng.gen_range(0..20));
                tr.emit(json!({"op": "load", "dst": 4, "a": other}));
                match (i + sweep) % 4 {
                    0 => { tr.emit(json!({"op": "load", "dst": 1, "a": dec(false, "5", 1)}));
                           tr.emit(json!({"op": "add", "form": "val_ref", "a": {"r": 1}, "b": {"r": 1}, "dst": 3})); }
                    1 => { tr.emit(json!({"op": "load", "dst": 1, "a": dec(false, "25", 1)})); tr.emit(json!({"op": "load", "dst": 2, "a": dec(false, "4", 1)}));
                           tr.emit(json!({"op": "mul", "form": "val_val", "a": {"r": 1}, "b": {"r": 2}, "dst": 3})); }
                    2 => { tr.emit(json!({"op": "load", "dst": 1, "a": dec(rng.gen_bool(0.5), &rand_digits(rng, 3), rng.gen_range(1..24))}));
                           tr.emit(json!({"op": "sub", "form": "ref_ref", "a": {"r": 1}, "b": {"r": 1}, "dst": 3})); }
                    _ => { tr.emit(json!({"op": "load", "dst": 1, "a": dec(false, "25", 1)})); tr.emit(json!({"op": "load", "dst": 2, "a": dec(false, "4", 0)}));
                           tr.emit(json!({"op": "mul", "form": "ref_val", "a": {"r": 1}, "b": {"r": 2}, "dst": 3})); }
                }
                let int_l = if lk.ends_with("bigint") { dec(i % 3 == 0, ["7", "1", "12", "0"][i % 4], 0) } else { dec(false, ["2", "1", "10", "0"][i % 4], 0) };
                let int_r = if rk.ends_with("bigint") { dec(i % 5 == 0, ["7", "1", "12", "0"][(i + 1) % 4], 0) } else { dec(false, ["3", "1", "10", "0"][(i + 1) % 4], 0) };
                // computed special on the left (right operand: the other register or a primitive), then on the right
                if is_dec_kind(&lk) {
                    let bv = if is_dec_kind(&rk) { json!({"r": 4}) } else { int_r.clone() };
                    let dst = if lk == "assign" { 3 } else { 5 };
                    tr.emit(json!({"op": op, "form": f, "a": {"r": 3}, "b": bv, "dst": dst}));
                }
                if is_dec_kind(&rk) && lk != "assign" {
                    let av = if is_dec_kind(&lk) { json!({"r": 4}) } else { int_l.clone() };
                    tr.emit(json!({"op": op, "form": f, "a": av, "b": {"r": 3}, "dst": 6}));
                }
                if i % 7 == 0 { tr.emit(json!({"op": "cmp", "form": "eq_val", "a": {"r": 5}, "b": {"r": 6}})); tr.emit(json!({"op": "hash", "a": {"r": 3}})); }
            }
        }
    }
    // deep scales: an operand whose scale was COMPUTED far away from its partner's (a product of two loaded decimals: scale
    // gaps 255..276 and 511..531 sit on byte boundaries of the shift count of the aligning fast paths), then every
    // overload of + and - with it on either side; the same with the zero x - x carrying that scale; sums of owned values
    let gaps: Vec<i64> = if thorough { (250..=280).chain(505..=535).chain([767, 768, 769, 787, 1024, 1030]).collect() } else { vec![255, 256, 264, 275, 276, 512, 520, 531] };
    for (gi, g) in gaps.iter().enumerate() {
        for (op, fl) in [("add", &fa), ("sub", &fs)] {
            for (i, f) in fl.iter().enumerate() {
                if thorough && (i + gi) % 4 != 0 { continue; }
                let (lk, rk) = form_kinds(f);
                tr.reserve(12);
                tr.emit(json!({"op": "reset"}));
                let s1 = rng.gen_range(0..=(*g).min(40));
                let base = rng.gen_range(-3..=3i64);
                tr.emit(json!({"op": "load", "dst": 1, "a": dec(rng.gen_bool(0.5), &rand_digits(rng, 1 + i % 5), s1 + base)}));
                tr.emit(json!({"op": "load", "dst": 2, "a": dec(false, &rand_digits(rng, 1 + (i + gi) % 4), g - s1)}));
                let mf = ["val_val", "ref_ref", "val_ref"][i % 3];
                tr.emit(json!({"op": "mul", "form": mf, "a": {"r": 1}, "b": {"r": 2}, "dst": 3}));      // scale base + g
                tr.emit(json!({"op": "load", "dst": 4, "a": dec(rng.gen_bool(0.5), &rand_digits(rng, 1 + (i + gi) % 12), base)}));            // gap g
                if (i + gi) % 5 == 0 { tr.emit(json!({"op": "sub", "form": "val_val", "a": {"r": 3}, "b": {"r": 3}, "dst": 3})); }        // the zero carrying scale base + g
                let int_l = if lk.ends_with("bigint") { dec(i % 3 == 0, ["7", "1", "12", "0"][i % 4], 0) } else { dec(false, ["2", "1", "10", "0"][i % 4], 0) };
                let int_r = if rk.ends_with("bigint") { dec(i % 5 == 0, ["7", "1", "12", "0"][(i + 1) % 4], 0) } else { dec(false, ["3", "1", "10", "0"][(i + 1) % 4], 0) };
                if is_dec_kind(&lk) {
                    let bv = if is_dec_kind(&rk) { json!({"r": 4}) } else { int_r.clone() };
                    let dst = if lk == "assign" { 3 } else { 5 };
                    tr.emit(json!({"op": op, "form": f, "a": {"r": 3}, "b": bv, "dst": dst}));
                }
                if is_dec_kind(&rk) && lk != "assign" {
                    let av = if is_dec_kind(&lk) { json!({"r": 4}) } else { int_l.clone() };
                    tr.emit(json!({"op": op, "form": f, "a": av, "b": {"r": 3}, "dst": 6}));
                }
                if i % 9 == 0 {
                    let sf = ["owned", "refs"][(i / 9) % 2];
                    tr.emit(json!({"op": "sum", "form": sf, "xs": [{"r": 4}, {"r": 3}, {"r": 1}], "dst": 5}));
                    tr.emit(json!({"op": "cmp", "form": "cmp_val", "a": {"r": 5}, "b": {"r": 4}}));
                }
            }
        }
    }
    for _ in 0..nprog {
        tr.reserve(50);
        tr.emit(json!({"op": "reset"}));
        let mut dg = [1usize; NREG + 1];
        let mut sc = [0usize; NREG + 1];
        for r in 1..=NREG {
            // value-equal twins now and then: the same value in another representation is made by rescaling later
            let (v, l, s) = pool_value(rng, max_len);
            tr.emit(json!({"op": "load", "dst": r, "a": v}));
            dg[r] = l;
            sc[r] = s;
        }
        let len = rng.gen_range(1..=40);
        for _ in 0..len {
            let a = rng.gen_range(1..=NREG);
            let b = rng.gen_range(1..=NREG);
            let d = rng.gen_range(1..=NREG);
            match rng.gen_range(0..20) {
                0..=9 => {
                    let (op, fl) = match rng.gen_range(0..3) { 0 => ("add", &fa), 1 => ("sub", &fs), _ => ("mul", &fm) };
                    let f = &fl[rng.gen_range(0..fl.len())];
                    let (lk, rk) = form_kinds(f);
                    let mk = |rng: &mut StdRng, k: &str, r: usize| -> (Value, usize, usize) {
                        if is_dec_kind(k) { (json!({"r": r}), dg[r], sc[r]) }
                        else if k.ends_with("bigint") { (bigint_value(rng, 30), 30, 0) }
                        else { (prim_value(rng, k.trim_start_matches('r')), 39, 0) }
                    };
                    let (av, da, sa) = mk(rng, &lk, a);
                    let (bv, db, sb) = mk(rng, &rk, b);
                    let dst = if lk == "assign" { a } else { d };
                    let (ndg, nsc) = if op == "mul" { (da + db, sa + sb) } else { (da.max(db) + sa + sb + 1, sa.max(sb)) };
                    if ndg > maxdig || nsc > maxdig { continue; }
                    tr.emit(json!({"op": op, "form": f, "a": av, "b": bv, "dst": dst}));
                    dg[dst] = ndg;
                    sc[dst] = nsc;
                }
                10 => { let f = ["val", "ref", "dref"][rng.gen_range(0..3)]; tr.emit(json!({"op": "neg", "form": f, "a": {"r": a}, "dst": d})); dg[d] = dg[a]; sc[d] = sc[a]; }
                11 => { let f = ["method", "signed", "dref"][rng.gen_range(0..3)]; tr.emit(json!({"op": "abs", "form": f, "a": {"r": a}, "dst": d})); dg[d] = dg[a]; sc[d] = sc[a]; }
                12 => { tr.emit(json!({"op": "double", "a": {"r": a}, "dst": d})); dg[d] = dg[a] + 1; sc[d] = sc[a]; }
                13 => { tr.emit(json!({"op": "half", "a": {"r": a}, "dst": d})); dg[d] = dg[a] + 1; sc[d] = sc[a] + 1; }
                14 => { if 2 * dg[a] > maxdig || 2 * sc[a] > maxdig { continue; } tr.emit(json!({"op": "square", "a": {"r": a}, "dst": d})); dg[d] = 2 * dg[a]; sc[d] = 2 * sc[a]; }
                15 => { let dt = rng.gen_range(0..25usize); if dg[a] + dt > maxdig { continue; }
                        let f = if rng.gen_bool(0.5) { "with_scale" } else { "to_owned_with_scale" };
                        tr.emit(json!({"op": "with_scale", "form": f, "a": {"r": a}, "dt": dt, "dst": d})); dg[d] = dg[a] + dt; sc[d] = sc[a] + dt; }
                16 => { tr.emit(json!({"op": "normalized", "a": {"r": a}, "dst": d})); dg[d] = dg[a]; sc[d] = sc[a] + dg[a]; }
                17 => { let c = rng.gen_range(1..=NREG); let ndg = dg[a].max(dg[b]).max(dg[c]) + sc[a] + sc[b] + sc[c] + 2; if ndg > maxdig { continue; }
                        let f = if rng.gen_bool(0.5) { "owned" } else { "refs" };
                        tr.emit(json!({"op": "sum", "form": f, "xs": [{"r": a}, {"r": b}, {"r": c}], "dst": d})); dg[d] = ndg; sc[d] = sc[a].max(sc[b]).max(sc[c]); }
                18 => { let f = ["eq_val", "cmp_val", "eq_dref", "cmp_dref", "le_val", "ne_dref"][rng.gen_range(0..6)]; tr.emit(json!({"op": "cmp", "form": f, "a": {"r": a}, "b": {"r": b}})); }
                _ => { tr.emit(json!({"op": "hash", "a": {"r": a}})); }
            }
        }
    }
}
