//! C01: + - * (and double/half/square/cube/neg/abs/sum) through every overload, all scale-gap classes.
use rand::rngs::StdRng;
use rand::Rng;
use serde_json::{json, Value};

use super::Tracer;
use crate::forms::{self, form_kinds, is_dec_kind};
use crate::gen::*;
use crate::wire::*;

pub fn prim_bounds(ty: &str) -> (i128, u128) {
    match ty {
        "i8" => (i8::MIN as i128, i8::MAX as u128),
        "i16" => (i16::MIN as i128, i16::MAX as u128),
        "i32" => (i32::MIN as i128, i32::MAX as u128),
        "i64" => (i64::MIN as i128, i64::MAX as u128),
        "i128" => (i128::MIN, i128::MAX as u128),
        "u8" => (0, u8::MAX as u128),
        "u16" => (0, u16::MAX as u128),
        "u32" => (0, u32::MAX as u128),
        "u64" => (0, u64::MAX as u128),
        "u128" => (0, u128::MAX),
        _ => panic!("type {}", ty),
    }
}

/// a value of primitive type `ty` as an integer-valued wire decimal (scale 0)
pub fn prim_value(rng: &mut StdRng, ty: &str) -> Value {
    let (lo, hi) = prim_bounds(ty);
    let signed = lo < 0;
    let mut v = match rng.gen_range(0..12) {
        0 => u128_to_json(0),
        1 => u128_to_json(1),
        2 => if signed { i128_to_json(-1) } else { u128_to_json(1) },
        3 => u128_to_json(2),
        4 => if signed { i128_to_json(-2) } else { u128_to_json(2) },
        5 => i128_to_json(lo),
        6 => u128_to_json(hi),
        7 => u128_to_json(10),
        8 => u128_to_json(hi - rng.gen_range(0..3)),
        _ => {
            let bits = rng.gen_range(1..=128u32);
            let raw: u128 = rng.gen::<u128>() >> (128 - bits);
            let mag = raw % (hi + if hi == u128::MAX { 0 } else { 1 }).max(1);
            if signed && rng.gen_bool(0.5) {
                let m = mag.min(lo.unsigned_abs());
                if m == lo.unsigned_abs() { i128_to_json(lo) } else { i128_to_json(-(m as i128)) }
            } else {
                u128_to_json(mag.min(hi))
            }
        }
    };
    scale_into(v.as_object_mut().unwrap(), 0);
    v
}

pub fn bigint_value(rng: &mut StdRng, max_len: usize) -> Value {
    if rng.gen_range(0..10) == 0 {
        let c = ["0", "1", "2", "10"][rng.gen_range(0..4)];
        return dec(rng.gen_bool(0.3), c, 0);
    }
    let len = pick_len(rng, max_len);
    dec(rng.gen_bool(0.5), &shaped_digits(rng, len), 0)
}

/// operand for one side of a form
fn operand(rng: &mut StdRng, kind: &str, max_len: usize, scale: i64) -> Value {
    if is_dec_kind(kind) {
        let len = pick_len(rng, max_len);
        match rng.gen_range(0..30) {
            0 => dec(false, "0", scale),                                 // zero carrying a scale
            1 if scale >= 0 && scale < 3000 => dec(rng.gen_bool(0.3), &format!("1{}", "0".repeat(scale as usize)), scale), // one written 1.00
            2 => dec(rng.gen_bool(0.5), "1", scale),
            _ => dec(rng.gen_bool(0.5), &shaped_digits(rng, len), scale),
        }
    } else if kind.ends_with("bigint") {
        bigint_value(rng, max_len)
    } else {
        prim_value(rng, kind.trim_start_matches('r'))
    }
}

pub fn gaps(thorough: bool) -> Vec<i64> {
    let mut g: Vec<i64> = (0..=45).collect();
    g.extend(585..=595);
    g.extend([57, 76, 95, 190, 304, 570, 589, 608, 1000, 1178, 4096, 9999, 10000]);
    // byte / word boundaries of the shift count
    g.extend(254..=277);
    g.extend([511, 512, 513, 530, 531, 532]);
    if thorough {
        let mut k = 19;
        while k <= 10000 { g.push(k); g.push(k + 1); k += 19 * 7; }
        let mut k = 16;
        while k <= 10000 { g.push(k); k *= 2; }
    }
    g
}

pub fn binary_case(tr: &mut Tracer, rng: &mut StdRng, op: &str, form: &str, gap: i64, max_len: usize) {
    let (lk, rk) = form_kinds(form);
    let base: i64 = if rng.gen_bool(0.7) { rng.gen_range(-40..=40) } else { rng.gen_range(-5000..=5000) };
    let (sa, sb) = if is_dec_kind(&lk) && is_dec_kind(&rk) {
        if rng.gen_bool(0.5) { (base, base + gap) } else { (base + gap, base) }
    } else if rng.gen_bool(0.5) { (gap, gap) } else { (-gap, -gap) };
    let a = operand(rng, &lk, max_len, sa);
    let mut b = operand(rng, &rk, max_len, sb);
    // equal values in different representations / identical operands now and then
    if is_dec_kind(&lk) && is_dec_kind(&rk) && rng.gen_range(0..25) == 0 {
        b = a.clone();
        if rng.gen_bool(0.5) { b["s"] = json!(-a["s"].as_i64().unwrap()); }
    }
    tr.emit(json!({"op": op, "form": form, "a": a, "b": b}));
}

pub fn drive(tr: &mut Tracer, rng: &mut StdRng, thorough: bool) {
    let gaps = gaps(thorough);
    let max_len = if thorough { 3000 } else { 700 };
    // 1. every form meets every gap class (short and medium operands)
    for op in ["add", "sub", "mul"] {
        let fs = forms::all_forms(op);
        let reps = if thorough { 3 } else { 1 };
        for _ in 0..reps {
            for (gi, g) in gaps.iter().enumerate() {
                for (fi, f) in fs.iter().enumerate() {
                    // quick: each form meets a third of the gaps per run (rotating with the seed); thorough: all
                    if !thorough && (gi + fi + (rng.gen_range(0..3) as usize)) % 3 != 0 && *g > 45 { continue; }
                    let ml = if op == "mul" { 40 } else { 60 };
                    binary_case(tr, rng, op, f, *g, ml);
                }
            }
        }
    }
    // 2. large operands, random forms
    let n_large = if thorough { 6000 } else { 1500 };
    for i in 0..n_large {
        let op = ["add", "sub", "mul"][i % 3];
        let fs = forms::all_forms(op);
        let f = &fs[rng.gen_range(0..fs.len())];
        let g = gaps[rng.gen_range(0..gaps.len())];
        let ml = if op == "mul" { if i % 30 == 2 { max_len } else { 300 } } else { max_len };
        binary_case(tr, rng, op, f, g, ml);
    }
    // 3. unary helpers and sums
    let n_un = if thorough { 12000 } else { 4000 };
    for i in 0..n_un {
        let s = rng.gen_range(-300..=300);
        let a = operand(rng, "val", if i % 10 == 0 { max_len.min(1000) } else { 80 }, s);
        let ev = match i % 12 {
            0 => json!({"op": "neg", "form": "val", "a": a}),
            1 => json!({"op": "neg", "form": "ref", "a": a}),
            2 => json!({"op": "neg", "form": "dref", "a": a}),
            3 => json!({"op": "abs", "form": "method", "a": a}),
            4 => json!({"op": "abs", "form": "signed", "a": a}),
            5 => json!({"op": "abs", "form": "dref", "a": a}),
            6 => json!({"op": "double", "a": a}),
            7 => json!({"op": "half", "a": a}),
            8 => json!({"op": "square", "a": a}),
            9 => json!({"op": "cube", "a": a}),
            _ => {
                let k = rng.gen_range(0..6);
                let xs: Vec<Value> = (0..k).map(|_| { let s = rng.gen_range(-30..=30); operand(rng, "val", 50, s) }).collect();
                json!({"op": "sum", "form": if i % 2 == 0 { "owned" } else { "refs" }, "xs": xs})
            }
        };
        tr.emit(ev);
    }
}
