//! C08: division in every spelling; zero divisors.
use num_bigint::{BigInt, BigUint};
use num_traits::{One, ToPrimitive, Zero};
use rand::rngs::StdRng;
use rand::Rng;
use serde_json::{json, Value};

use super::c01::{prim_bounds, prim_value};
use super::Tracer;
use crate::forms::{self, form_kinds, is_dec_kind, INT_TYPES};
use crate::gen::*;
use crate::wire::*;

fn precision() -> usize {
    env!("BDV_RUST_BIGDECIMAL_DEFAULT_PRECISION").parse().unwrap()
}

fn fits(v: &Value, ty: &str) -> bool {
    if json_scale(v) != 0 { return false; }
    let n = json_to_bigint(v);
    let (lo, hi) = prim_bounds(ty);
    n >= BigInt::from(lo) && n <= BigInt::from(hi)
}

/// all spellings applicable to the pair (a, b); one history group
pub fn group(tr: &mut Tracer, rng: &mut StdRng, a: &Value, b: &Value, all_types: bool) {
    tr.reserve(120);
    tr.emit(json!({"op": "reset"}));
    for f in ["val_val", "val_ref", "ref_val", "ref_ref"] {
        tr.emit(json!({"op": "div", "form": f, "a": a, "b": b}));
    }
    let pick = rng.gen_range(0..INT_TYPES.len());
    for (i, ty) in INT_TYPES.iter().enumerate() {
        if !all_types && i != pick && rng.gen_range(0..4) != 0 { continue; }
        if fits(b, ty) {
            for f in [format!("val_{}", ty), format!("ref_{}", ty), format!("val_r{}", ty), format!("assign_{}", ty), format!("assign_r{}", ty)] {
                tr.emit(json!({"op": "div", "form": f, "a": a, "b": b}));
            }
        }
        // numerators other than one (1 / x is the reciprocal, property C12)
        if fits(a, ty) && !json_to_bigint(a).is_one() {
            for f in [format!("{}_val", ty), format!("{}_ref", ty), format!("r{}_val", ty), format!("r{}_ref", ty)] {
                tr.emit(json!({"op": "div", "form": f, "a": a, "b": b}));
            }
        }
    }
}

fn from_big(n: &BigUint, neg: bool, scale: i64) -> Value {
    let b = BigInt::from(n.clone());
    parts_to_json(&if neg { -b } else { b }, scale)
}

pub fn drive(tr: &mut Tracer, rng: &mut StdRng, thorough: bool) {
    let p = precision();
    // 1. zero divisors: every one of the division overloads must panic
    let zero = dec(false, "0", 0);
    for f in forms::all_forms("div") {
        let (lk, rk) = form_kinds(&f);
        if lk.contains("f32") || lk.contains("f64") || rk.contains("f32") || rk.contains("f64") { continue; }
        for zsc in [0i64, 3, -2] {
            let zb = if is_dec_kind(&rk) { dec(false, "0", zsc) } else { zero.clone() };
            let a = if is_dec_kind(&lk) {
                let l = pick_len(rng, 30);
                dec(rng.gen_bool(0.5), &shaped_digits(rng, l), rng.gen_range(-5..=5))
            } else {
                [dec(false, "1", 0), dec(false, "2", 0), dec(false, "0", 0), dec(false, "77", 0)][rng.gen_range(0..4)].clone()
            };
            tr.emit(json!({"op": "div", "form": f, "a": a, "b": zb}));
            if !is_dec_kind(&rk) { break; }
        }
    }
    // float numerators over a zero decimal: every form must panic as well
    for f in ["f32_val", "f32_ref", "rf32_val", "rf32_ref", "f64_val", "f64_ref", "rf64_val", "rf64_ref"] {
        for x in [1.0f64, -1.0, 2.5, 0.0, 1e300, f64::NAN, f64::INFINITY] {
            let bits = if f.contains("f32") { (x as f32).to_bits() as u128 } else { x.to_bits() as u128 };
            for zsc in [0i64, 2] {
                let w = if f.contains("f32") { 32 } else { 64 };
                tr.emit(json!({"op": "div", "form": f, "a": {"bits": u128_to_json(bits), "w": w}, "b": dec(false, "0", zsc)}));
            }
        }
    }
    // normal float operands on either side: the division must agree with the one on the exact decimal of the float
    let nf = if thorough { 600 } else { 120 };
    for i in 0..nf {
        let x: f64 = match i % 8 {
            0 => [1.0, -1.0, 2.0, -2.0, 0.5, 10.0, 3.0, 0.1][rng.gen_range(0..8)],
            1 => rng.gen_range(1..100000) as f64 / 8.0,
            2 => 10f64.powi(rng.gen_range(-12..15)),
            3 => -(rng.gen_range(1..1000) as f64) * 0.001,
            _ => { let m: f64 = rng.gen_range(1.0..2.0); let e: i32 = rng.gen_range(-40..40); (if rng.gen_bool(0.5) { m } else { -m }) * 2f64.powi(e) }
        };
        let l = pick_len(rng, 40);
        let d = dec(rng.gen_bool(0.5), &shaped_digits(rng, l), rng.gen_range(-10..=10));
        if json_to_bigint(&d) == 0.into() { continue; }
        tr.reserve(12);
        tr.emit(json!({"op": "reset"}));
        for (ty, w, bits) in [("f64", 64, x.to_bits() as u128), ("f32", 32, (x as f32).to_bits() as u128)] {
            if w == 32 && !(x as f32).is_normal() { continue; }
            let fv = json!({"bits": u128_to_json(bits), "w": w});
            for f in [format!("val_{}", ty), format!("ref_{}", ty), format!("val_r{}", ty), format!("assign_{}", ty), format!("assign_r{}", ty)] {
                tr.emit(json!({"op": "div", "form": f, "a": d, "b": fv}));
            }
            tr.emit(json!({"op": "reset"}));
            for f in [format!("{}_val", ty), format!("{}_ref", ty), format!("r{}_val", ty), format!("r{}_ref", ty)] {
                tr.emit(json!({"op": "div", "form": f, "a": fv, "b": d}));
            }
            tr.emit(json!({"op": "reset"}));
        }
    }
    // division by a primitive +-2 is the exact half, however long the numerator
    for i in 0..(if thorough { 400 } else { 80 }) {
        let len = [40usize, 99, 100, 101, 150, 400][i % 6] + rng.gen_range(0..3);
        let mut dg = rand_digits(rng, len);
        if i % 3 != 0 { dg.pop(); dg.push(['1', '3', '5', '7', '9'][rng.gen_range(0..5)]); }
        let a = dec(rng.gen_bool(0.5), &dg, rng.gen_range(-30..=30));
        let ty = INT_TYPES[i % 10];
        let two = if ty.starts_with('i') && rng.gen_bool(0.5) { dec(true, "2", 0) } else { dec(false, "2", 0) };
        for f in [format!("val_{}", ty), format!("ref_{}", ty), format!("val_r{}", ty), format!("assign_{}", ty), format!("assign_r{}", ty)] {
            tr.emit(json!({"op": "div", "form": f, "a": a, "b": two}));
        }
        let fv = json!({"bits": u128_to_json((if rng.gen_bool(0.5) { 2.0f64 } else { -2.0 }).to_bits() as u128), "w": 64});
        for f in ["val_f64", "ref_f64", "assign_f64"] {
            tr.emit(json!({"op": "div", "form": f, "a": a, "b": fv}));
        }
    }
    // 2. small operands through every spelling and every primitive type
    let n2 = if thorough { 1500 } else { 250 };
    for _ in 0..n2 {
        let a = if rng.gen_bool(0.6) { dec(rng.gen_bool(0.4), &format!("{}", rng.gen_range(0..400u32)), 0) } else { let l = pick_len(rng, 12); dec(rng.gen_bool(0.5), &shaped_digits(rng, l), rng.gen_range(-4..=6)) };
        let b = match rng.gen_range(0..6) {
            0 => { let t = INT_TYPES[rng.gen_range(0..10)]; prim_value(rng, t) }
            1 => dec(rng.gen_bool(0.5), ["1", "2", "10", "3", "7"][rng.gen_range(0..5)], 0),
            _ => { let l = pick_len(rng, 12); dec(rng.gen_bool(0.5), &shaped_digits(rng, l), if rng.gen_bool(0.5) { 0 } else { rng.gen_range(-4..=6) }) }
        };
        if json_to_bigint(&b).is_zero() { continue; }
        group(tr, rng, &a, &b, true);
    }
    // 3. quotients constructed to terminate / tie / nearly tie around the P-th digit: a = q * b
    let n3 = if thorough { 3000 } else { 500 };
    for i in 0..n3 {
        let qlen = match i % 6 { 0 => p + 1, 1 => p, 2 => p + 2, 3 => rng.gen_range(1..=p), 4 => p + 1, _ => rng.gen_range(p + 1..=p + 40) };
        let mut q = match i % 4 { 0 => "9".repeat(qlen), _ => rand_digits(rng, qlen) };
        if i % 6 == 0 || i % 6 == 4 {
            // exact tie at digit P+1: ...5
            q.replace_range(qlen - 1..qlen, "5");
        } else if i % 6 == 2 {
            let tail = ["49", "51", "50", "99"][rng.gen_range(0..4)];
            q.replace_range(qlen - 2..qlen, tail);
        }
        let qn: BigUint = q.parse().unwrap();
        let blen = pick_len(rng, if thorough { 300 } else { 60 });
        let bn: BigUint = shaped_digits(rng, blen).parse().unwrap();
        let an = &qn * &bn;
        // keep the integer numerator below the integer denominator, so that the quotient digits come out of
        // the digit-by-digit loop (otherwise the first integer division already yields the whole quotient)
        let bn = if i % 5 != 4 { &bn * BigUint::from(10u8).pow((qlen + rng.gen_range(0..3)) as u32) } else { bn };
        let (sa, sb) = (rng.gen_range(-50..=50), rng.gen_range(-50..=50));
        let (na, nb) = (rng.gen_bool(0.5), rng.gen_bool(0.5));
        group(tr, rng, &from_big(&an, na, sa), &from_big(&bn, nb, sb), false);
    }
    // 4. divisors 2^i 5^j (terminating quotients of every length), random numerators
    for i in 0..=(if thorough { 170 } else { 60 }) {
        for j in [0usize, 1, 7, 30] {
            let bn = BigUint::from(2u8).pow(i as u32) * BigUint::from(5u8).pow(j as u32);
            let l = pick_len(rng, 40);
            let a = dec(rng.gen_bool(0.5), &shaped_digits(rng, l), rng.gen_range(-10..=10));
            let bb = from_big(&bn, rng.gen_bool(0.3), rng.gen_range(-10..=10));
            group(tr, rng, &a, &bb, false);
        }
    }
    // 5. long operands, |a| much smaller / larger than |b|, equal unscaled integers with different scales
    let n5 = if thorough { 1500 } else { 250 };
    let max_len = if thorough { 2000 } else { 500 };
    for i in 0..n5 {
        let (la, lb) = match i % 4 { 0 => (pick_len(rng, 20), pick_len(rng, max_len)), 1 => (pick_len(rng, max_len), pick_len(rng, 20)), _ => (pick_len(rng, max_len), pick_len(rng, max_len)) };
        let da = shaped_digits(rng, la);
        let db = if i % 9 == 0 { da.clone() } else { shaped_digits(rng, lb) };
        let a = dec(rng.gen_bool(0.5), &da, rng.gen_range(-300..=300));
        let b = dec(rng.gen_bool(0.5), &db, rng.gen_range(-300..=300));
        if json_to_bigint(&b).is_zero() { continue; }
        group(tr, rng, &a, &b, false);
    }
}
