//! C20: the default-context operations under the build-time configuration this harness was compiled with.
//! The first line of every shard carries that configuration (recorded by the harness's own build.rs from the
//! RUST_BIGDECIMAL_* environment, not read back from the crate); the specification judges every default-context
//! call against the explicit-context semantics instantiated with it.
use num_bigint::BigUint;
use rand::rngs::StdRng;
use rand::Rng;
use serde_json::{json, Value};

use super::c04::render_all;
use super::c06::tie_digits;
use super::Tracer;
use crate::gen::*;
use crate::wire::*;

fn cfg_u(name: &str) -> usize {
    match name {
        "precision" => env!("BDV_RUST_BIGDECIMAL_DEFAULT_PRECISION").parse().unwrap(),
        "low" => env!("BDV_RUST_BIGDECIMAL_FMT_EXPONENTIAL_LOWER_THRESHOLD").parse().unwrap(),
        "high" => env!("BDV_RUST_BIGDECIMAL_FMT_EXPONENTIAL_UPPER_THRESHOLD").parse().unwrap(),
        "pad" => env!("BDV_RUST_BIGDECIMAL_FMT_MAX_INTEGER_PADDING").parse().unwrap(),
        _ => panic!(),
    }
}

pub fn drive(tr: &mut Tracer, rng: &mut StdRng, thorough: bool) {
    let p = cfg_u("precision");
    let (low, high, pad) = (cfg_u("low") as i64, cfg_u("high") as i64, cfg_u("pad") as i64);
    tr.emit(json!({"op": "ctx_default"}));
    // division: small-scope exhaustive at small precisions, sampled otherwise
    let lim: u32 = if p <= 3 { if thorough { 1000 } else { 160 } } else if thorough { 120 } else { 40 };
    for a in 0..lim {
        for b in 1..lim {
            let f = ["val_val", "val_ref", "ref_val", "ref_ref"][((a + b) % 4) as usize];
            tr.emit(json!({"op": "div", "form": f, "a": dec(false, &a.to_string(), 0), "b": dec((a + b) % 7 == 0, &b.to_string(), 0)}));
        }
    }
    for i in 0..(if thorough { 600 } else { 150 }) {
        let la = pick_len(rng, 2 * p + 10);
        let lb = pick_len(rng, p + 10);
        let a = dec(rng.gen_bool(0.5), &shaped_digits(rng, la), rng.gen_range(-20..=20));
        let b = dec(rng.gen_bool(0.5), &shaped_digits(rng, lb), rng.gen_range(-20..=20));
        if json_to_bigint(&b) == 0.into() { continue; }
        tr.emit(json!({"op": "div", "form": "val_val", "a": a, "b": b}));
        if i % 5 == 0 {
            tr.emit(json!({"op": "div", "form": "i32_val", "a": dec(false, "1", 0), "b": b}));   // 1 / x = inverse()
            tr.emit(json!({"op": "inverse", "form": "default", "a": b}));
        }
    }
    // roots at the default context: perfect powers and their neighbours at the configured precision
    for i in 0..(if thorough { 300 } else { 60 }) {
        let t: BigUint = rand_digits(rng, p.max(1)).parse().unwrap();
        let far = BigUint::from(10u8).pow(rng.gen_range(3..40));
        let tm = &t * 10u8 + 5u8;
        for (k, op) in [(2u32, "sqrt"), (3u32, "cbrt")] {
            let cands = [t.pow(k), t.pow(k) * &far + 1u8, t.pow(k) * &far - 1u8, tm.pow(k), tm.pow(k) * &far + 1u8, tm.pow(k) * &far - 1u8];
            let c = &cands[i % 6];
            let sc = rng.gen_range(-12..=12) * k as i64 + rng.gen_range(0..k) as i64;
            let neg = op == "cbrt" && rng.gen_bool(0.5);
            let b = num_bigint::BigInt::from(c.clone());
            tr.emit(json!({"op": op, "form": "default", "a": parts_to_json(&if neg { -b } else { b }, sc)}));
        }
        let l = pick_len(rng, 60);
        let x = dec(false, &shaped_digits(rng, l), rng.gen_range(-30..=30));
        tr.emit(json!({"op": "sqrt", "form": "default", "a": x}));
        tr.emit(json!({"op": "cbrt", "form": "default", "a": x}));
        if json_to_bigint(&x) != 0.into() { tr.emit(json!({"op": "inverse", "form": "default", "a": x})); }
    }
    // exp delivers the configured number of digits
    for (dg, sc, neg) in [("1", 0i64, false), ("5", 1, false), ("25", 1, true), ("17", 0, false), ("123456789", 7, true), ("3", 0, true)] {
        tr.emit(json!({"op": "exp", "exactp": true, "a": dec(neg, dg, sc)}));
        tr.cut();
    }
    // round(n) uses the configured mode: ties and near ties
    for i in 0..(if thorough { 3000 } else { 600 }) {
        let len = pick_len(rng, 40);
        let keep = rng.gen_range(1..=len);
        let sc = rng.gen_range(-5..=30i64);
        let a = dec(rng.gen_bool(0.5), &tie_digits(rng, len, keep), sc);
        let t = sc - (len as i64 - keep as i64);
        tr.emit(json!({"op": "round", "a": a, "t": t}));
        // precision formatting uses the same mode (and the padding limit)
        let n = t.max(0) as usize;
        tr.emit(json!({"op": "fmt", "kind": "display", "form": if i % 2 == 0 { "val" } else { "dref" }, "a": a, "N": n}));
        tr.emit(json!({"op": "fmt", "kind": "lowerexp", "form": "val", "a": a, "N": keep.saturating_sub(1)}));
    }
    // values below one unit of the last printed place: directed default modes must still round them away from zero
    for n in 0..=6usize {
        for extra in 1..=4i64 {
            for dg in ["1", "4", "5", "9", "49", "51"] {
                for neg in [false, true] {
                    let a = dec(neg, dg, n as i64 + extra + dg.len() as i64 - 1);
                    tr.emit(json!({"op": "fmt", "kind": "display", "form": if neg { "val" } else { "dref" }, "a": a, "N": n}));
                    tr.emit(json!({"op": "round", "a": a, "t": n}));
                }
            }
        }
    }
    // Display switches notation exactly at the configured zero counts
    for len in [1usize, 2, 5, 19, 30] {
        for lz in (low - 3).max(0)..=(low + 3) {
            let a = dec(rng.gen_bool(0.5), &rand_digits(rng, len), len as i64 + lz);
            render_all(tr, &a, true, lz as usize);
        }
        for tz in (high - 3).max(0)..=(high + 3) {
            let a = dec(rng.gen_bool(0.5), &rand_digits(rng, len), -tz);
            render_all(tr, &a, true, tz as usize);
        }
    }
    // integer padding limit with an explicit precision
    for k in [0i64, 1, 3, pad / 2, pad - 2, pad - 1, pad, pad + 1, pad + 5] {
        for n in [0i64, 1, 2, 5, pad - k - 2, pad - k - 1, pad - k, pad - k + 1] {
            if k < 0 || n < 0 || n > 3000 || k > 3000 { continue; }
            let a = dec(rng.gen_bool(0.5), &rand_digits(rng, 1 + (k as usize + n as usize) % 7), -k);
            tr.emit(json!({"op": "fmt", "kind": "display", "form": "val", "a": a, "N": n}));
        }
    }
    tr.emit(json!({"op": "consts", "form": "zero"}));
}
