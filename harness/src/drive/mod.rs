//! Input drivers (impl -> spec direction): large / boundary / random inputs TLC could never enumerate.
use std::fs::File;
use std::io::{BufWriter, Write};

use rand::rngs::StdRng;
use rand::SeedableRng;
use serde_json::Value;

pub mod c01;
mod c02;
mod c03;
pub mod c04;
mod c05;
pub mod c06;
mod c07;
mod c08;
mod c09;
mod c10;
mod c13;
mod c14;
mod c15;
mod c16;
mod c17;
mod c18;
mod c19;
mod c20;
pub mod expand;

/// Writes events (with outcomes) into shards of bounded size; every shard starts with the cfg event.
pub struct Tracer {
    dir: String,
    prefix: String,
    shard_events: usize,
    shard_bytes: usize,
    cur: Option<BufWriter<File>>,
    cur_events: usize,
    cur_bytes: usize,
    shard_no: usize,
    pub total: u64,
    /// registers of program traces (C19): the events keep {"r": i} references, the harness substitutes
    /// the decimal the crate really produced before executing
    pub regs: Vec<Value>,
}

impl Tracer {
    pub fn new(dir: &str, prefix: &str, shard_events: usize) -> Tracer {
        std::fs::create_dir_all(dir).expect("outdir");
        Tracer { dir: dir.into(), prefix: prefix.into(), shard_events, shard_bytes: 24 << 20, cur: None, cur_events: 0, cur_bytes: 0, shard_no: 0, total: 0, regs: vec![crate::wire::dec_json_from_digits(false, "0", 0); 17] }
    }
    fn roll(&mut self) {
        if let Some(mut f) = self.cur.take() {
            f.flush().unwrap();
        }
        let path = format!("{}/{}-{:04}.ndjson", self.dir, self.prefix, self.shard_no);
        self.shard_no += 1;
        let mut f = BufWriter::new(File::create(path).expect("shard"));
        writeln!(f, "{}", crate::cfg_event()).unwrap();
        self.cur = Some(f);
        self.cur_events = 0;
        self.cur_bytes = 0;
    }
    /// make sure the next n events land in the same shard (programs and history groups must not span shards)
    pub fn reserve(&mut self, n: usize) {
        if self.cur.is_some() && self.cur_events > 0 && self.cur_events + n > self.shard_events {
            self.roll();
        }
    }
    /// force a new shard (used where history variables must not span shards)
    pub fn cut(&mut self) {
        if self.cur_events > 0 {
            self.roll();
        }
    }
    /// execute the event against the crate, record the outcome
    pub fn emit(&mut self, mut ev: Value) -> Value {
        if self.cur.is_none() || self.cur_events >= self.shard_events || self.cur_bytes >= self.shard_bytes {
            self.roll();
        }
        if ev["op"] == "div" {
            // tell the specification which operand is the primitive (a form name is only a label to it)
            let (lk, rk) = crate::forms::form_kinds(ev["form"].as_str().unwrap());
            if !crate::forms::is_dec_kind(&lk) {
                ev.as_object_mut().unwrap().insert("lhsprim".into(), Value::Bool(true));
            }
            if !crate::forms::is_dec_kind(&rk) {
                ev.as_object_mut().unwrap().insert("rhsprim".into(), Value::Bool(true));
            }
        }
        let r = if ev["op"] == "reset" || ev["op"] == "note" {
            if ev["op"] == "reset" {
                // like the specification: a reset clears the registers to zero
                for r in self.regs.iter_mut() { *r = crate::wire::dec_json_from_digits(false, "0", 0); }
            }
            Value::Null
        } else if ev["op"] == "load" {
            let k = ev["dst"].as_u64().unwrap() as usize;
            // through the crate's constructor and accessor
            let x = crate::wire::json_to_dec(&ev["a"]);
            let v = crate::wire::dec_to_json(&x);
            self.regs[k] = v.clone();
            serde_json::json!({"d": v})
        } else {
            // resolve register references for execution only
            let mut call = ev.clone();
            let mut uses_regs = false;
            for key in ["a", "b"] {
                if let Some(i) = call.get(key).and_then(|x| x.get("r")).and_then(|i| i.as_u64()) {
                    call[key] = self.regs[i as usize].clone();
                    uses_regs = true;
                }
            }
            if let Some(xs) = call.get_mut("xs").and_then(|x| x.as_array_mut()) {
                for x in xs.iter_mut() {
                    if let Some(i) = x.get("r").and_then(|i| i.as_u64()) {
                        *x = self.regs[i as usize].clone();
                        uses_regs = true;
                    }
                }
            }
            if let Some(dt) = call.get("dt").and_then(|d| d.as_i64()) {
                // upward re-scaling by dt digits from the register's current scale
                let t = crate::wire::json_scale(&call["a"]) + dt;
                call.as_object_mut().unwrap().remove("dt");
                call["t"] = Value::from(t);
                ev.as_object_mut().unwrap().remove("dt");
                ev["t"] = Value::from(t);
            }
            let r = crate::exec::exec(&call);
            if let (Some(k), Some(dv)) = (ev.get("dst").and_then(|k| k.as_u64()), r.get("d")) {
                self.regs[k as usize] = dv.clone();
            }
            let _ = uses_regs;
            r
        };
        if !r.is_null() {
            ev.as_object_mut().unwrap().insert("r".into(), r.clone());
        }
        let line = ev.to_string();
        self.cur_bytes += line.len();
        writeln!(self.cur.as_mut().unwrap(), "{}", line).unwrap();
        self.cur_events += 1;
        self.total += 1;
        r
    }
    /// execute the event; record it only if the outcome satisfies `keep` (exhaustive enumerations record
    /// sparsely: e.g. only the strings the parser accepted or panicked on). Returns the outcome.
    pub fn emit_if<F: Fn(&Value) -> bool>(&mut self, mut ev: Value, keep: F) -> Value {
        let r = crate::exec::exec(&ev);
        if keep(&r) {
            if self.cur.is_none() || self.cur_events >= self.shard_events || self.cur_bytes >= self.shard_bytes {
                self.roll();
            }
            ev.as_object_mut().unwrap().insert("r".into(), r.clone());
            let line = ev.to_string();
            self.cur_bytes += line.len();
            writeln!(self.cur.as_mut().unwrap(), "{}", line).unwrap();
            self.cur_events += 1;
            self.total += 1;
        }
        r
    }
    pub fn finish(&mut self) {
        if let Some(mut f) = self.cur.take() {
            f.flush().unwrap();
        }
    }
}

pub fn drive(prop: &str, tier: &str, seed: u64, outdir: &str) -> u64 {
    let thorough = tier == "thorough";
    let mut rng = StdRng::seed_from_u64(seed ^ 0x5eed_0000);
    let shard: usize = std::env::var("BDV_SHARD").ok().and_then(|s| s.parse().ok()).unwrap_or(3000);
    let mut tr = Tracer::new(outdir, &format!("drv-{}", prop), shard);
    match prop {
        "C01" => c01::drive(&mut tr, &mut rng, thorough),
        "C02" => c02::drive(&mut tr, &mut rng, thorough),
        "C03" => c03::drive(&mut tr, &mut rng, thorough),
        "C04" => c04::drive(&mut tr, &mut rng, thorough),
        "C05" => c05::drive(&mut tr, &mut rng, thorough),
        "C06" => c06::drive(&mut tr, &mut rng, thorough),
        "C07" => c07::drive(&mut tr, &mut rng, thorough),
        "C08" => c08::drive(&mut tr, &mut rng, thorough),
        "C09" => c09::drive(&mut tr, &mut rng, thorough),
        "C10" => c10::drive_sqrt(&mut tr, &mut rng, thorough),
        "C11" => c10::drive_cbrt(&mut tr, &mut rng, thorough),
        "C12" => c10::drive_inverse(&mut tr, &mut rng, thorough),
        "C13" => c13::drive(&mut tr, &mut rng, thorough),
        "C14" => c14::drive(&mut tr, &mut rng, thorough),
        "C15" => c15::drive(&mut tr, &mut rng, thorough),
        "C16" => c16::drive(&mut tr, &mut rng, thorough),
        "C17" => c17::drive(&mut tr, &mut rng, thorough),
        "C18" => c18::drive(&mut tr, &mut rng, thorough),
        "C19" => c19::drive(&mut tr, &mut rng, thorough),
        "C20" => c20::drive(&mut tr, &mut rng, thorough),
        _ => panic!("no driver for {}", prop),
    }
    tr.finish();
    tr.total
}
