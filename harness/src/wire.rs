//! Wire format between the harness and the TLA+ trace specification (ndjson).
//!
//! big integer : {"s": -1|0|1, "l": [base-10^9 limbs, little endian]}      (10^9 < 2^31: TLC ints are 32 bit)
//! decimal     : {"s":.., "l":[..], "e": scale}            when the scale fits 31 bits
//!               {"s":.., "l":[..], "E": <big integer>}    otherwise ("wide" decimals)
//! text        : array of unicode code points
//! The harness never interprets numbers: it only moves them between JSON and the crate's types.

use bigdecimal::BigDecimal;
use num_bigint::{BigInt, Sign};
use serde_json::{json, Map, Value};

pub fn sign_num(s: Sign) -> i64 {
    match s {
        Sign::Minus => -1,
        Sign::NoSign => 0,
        Sign::Plus => 1,
    }
}

/// limbs (base 1e9, LE) of a decimal digit string (no sign)
fn limbs_of_str(digits: &str) -> Vec<Value> {
    let b = digits.as_bytes();
    let mut out = Vec::with_capacity(b.len() / 9 + 1);
    let mut end = b.len();
    while end > 0 {
        let start = end.saturating_sub(9);
        let chunk = std::str::from_utf8(&b[start..end]).unwrap();
        out.push(Value::from(chunk.parse::<u32>().unwrap()));
        end = start;
    }
    while let Some(last) = out.last() {
        if last.as_u64() == Some(0) {
            out.pop();
        } else {
            break;
        }
    }
    out
}

pub fn bigint_to_json(n: &BigInt) -> Value {
    let s = sign_num(n.sign());
    let mag = n.magnitude().to_str_radix(10);
    json!({"s": s, "l": limbs_of_str(&mag)})
}

pub fn i128_to_json(n: i128) -> Value {
    bigint_to_json(&BigInt::from(n))
}
pub fn u128_to_json(n: u128) -> Value {
    bigint_to_json(&BigInt::from(n))
}

pub fn scale_into(m: &mut Map<String, Value>, scale: i64) {
    if scale > -(1 << 30) && scale < (1 << 30) {
        m.insert("e".into(), Value::from(scale));
    } else {
        m.insert("E".into(), i128_to_json(scale as i128));
    }
}

pub fn parts_to_json(n: &BigInt, scale: i64) -> Value {
    let mut v = bigint_to_json(n);
    scale_into(v.as_object_mut().unwrap(), scale);
    v
}

/// Encode a decimal through its public accessor (int_val, scale).
pub fn dec_to_json(d: &BigDecimal) -> Value {
    let (n, scale) = d.as_bigint_and_exponent();
    parts_to_json(&n, scale)
}

pub fn json_to_bigint(v: &Value) -> BigInt {
    let s = v["s"].as_i64().expect("sign");
    let limbs = v["l"].as_array().expect("limbs");
    if limbs.is_empty() || s == 0 {
        return BigInt::from(0);
    }
    let mut text = String::with_capacity(limbs.len() * 9 + 1);
    for (i, l) in limbs.iter().rev().enumerate() {
        let x = l.as_u64().expect("limb");
        if i == 0 {
            text.push_str(&format!("{}", x));
        } else {
            text.push_str(&format!("{:09}", x));
        }
    }
    let mag = BigInt::parse_bytes(text.as_bytes(), 10).expect("digits");
    if s < 0 {
        -mag
    } else {
        mag
    }
}

pub fn json_scale(v: &Value) -> i64 {
    if let Some(e) = v.get("e") {
        e.as_i64().expect("scale")
    } else {
        let n = json_to_bigint(&v["E"]);
        use num_traits::ToPrimitive;
        n.to_i64().expect("wide scale fits i64")
    }
}

pub fn json_to_dec(v: &Value) -> BigDecimal {
    BigDecimal::new(json_to_bigint(v), json_scale(v))
}

pub fn text_to_json(s: &str) -> Value {
    Value::Array(s.chars().map(|c| Value::from(c as u32)).collect())
}
pub fn bytes_to_json(b: &[u8]) -> Value {
    Value::Array(b.iter().map(|c| Value::from(*c as u32)).collect())
}
pub fn json_to_text(v: &Value) -> String {
    v.as_array()
        .expect("text")
        .iter()
        .map(|c| char::from_u32(c.as_u64().unwrap() as u32).unwrap())
        .collect()
}
pub fn json_to_bytes(v: &Value) -> Vec<u8> {
    v.as_array().expect("bytes").iter().map(|c| c.as_u64().unwrap() as u8).collect()
}

/// decimal from a digit string (no sign), sign and scale — used by generators
pub fn dec_json_from_digits(neg: bool, digits: &str, scale: i64) -> Value {
    let t = digits.trim_start_matches('0');
    let limbs = limbs_of_str(t);
    let s = if limbs.is_empty() { 0 } else if neg { -1 } else { 1 };
    let mut m = Map::new();
    m.insert("s".into(), Value::from(s));
    m.insert("l".into(), Value::Array(limbs));
    scale_into(&mut m, scale);
    Value::Object(m)
}
