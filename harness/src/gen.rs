//! Input generators shared by the drivers: digit strings with the shapes the properties single out.
use rand::rngs::StdRng;
use rand::Rng;
use serde_json::Value;

use crate::wire::dec_json_from_digits;

pub fn rand_digits(rng: &mut StdRng, len: usize) -> String {
    let mut s = String::with_capacity(len);
    for i in 0..len {
        let lo = if i == 0 { 1 } else { 0 };
        s.push((b'0' + rng.gen_range(lo..10u8)) as char);
    }
    s
}

/// digit strings of a given length in the shapes that matter: random, all nines, power of ten,
/// 10^k+1, long zero runs, trailing zeros, 4999.., 5000..1
pub fn shaped_digits(rng: &mut StdRng, len: usize) -> String {
    let len = len.max(1);
    match rng.gen_range(0..12) {
        0 => "9".repeat(len),
        1 => format!("1{}", "0".repeat(len - 1)),
        2 => {
            if len >= 2 { format!("1{}1", "0".repeat(len - 2)) } else { "2".into() }
        }
        3 => {
            // trailing zeros
            let k = rng.gen_range(0..len);
            format!("{}{}", rand_digits(rng, len - k), "0".repeat(k))
        }
        4 => {
            // zero run in the middle
            if len >= 3 {
                let k = rng.gen_range(1..len - 1);
                let h = rng.gen_range(1..=len - 1 - k);
                format!("{}{}{}", rand_digits(rng, h), "0".repeat(k), rand_digits(rng, len - h - k))
            } else {
                rand_digits(rng, len)
            }
        }
        5 => {
            if len >= 3 {
                let h = rng.gen_range(1..len - 1);
                format!("{}4{}", rand_digits(rng, h), "9".repeat(len - h - 1))
            } else {
                rand_digits(rng, len)
            }
        }
        6 => {
            if len >= 3 {
                let h = rng.gen_range(1..len - 1);
                format!("{}5{}1", rand_digits(rng, h), "0".repeat(len - h - 2))
            } else {
                rand_digits(rng, len)
            }
        }
        7 => {
            if len >= 2 {
                let h = rng.gen_range(1..len);
                format!("{}5{}", rand_digits(rng, h), "0".repeat(len - h - 1))
            } else {
                "5".into()
            }
        }
        _ => rand_digits(rng, len),
    }
}

pub fn pick_len(rng: &mut StdRng, max: usize) -> usize {
    // skewed towards short, but reaching max
    match rng.gen_range(0..10) {
        0..=3 => rng.gen_range(1..=max.min(12)),
        4..=6 => rng.gen_range(1..=max.min(60)),
        7..=8 => rng.gen_range(1..=max.min(400)),
        _ => rng.gen_range(1..=max),
    }
}

pub fn rand_dec(rng: &mut StdRng, max_len: usize, scale_lo: i64, scale_hi: i64) -> Value {
    let len = pick_len(rng, max_len);
    let digits = shaped_digits(rng, len);
    let neg = rng.gen_bool(0.5);
    let scale = rng.gen_range(scale_lo..=scale_hi);
    if rng.gen_range(0..40) == 0 {
        return dec_json_from_digits(false, "0", scale);
    }
    dec_json_from_digits(neg, &digits, scale)
}

pub fn dec(neg: bool, digits: &str, scale: i64) -> Value {
    dec_json_from_digits(neg, digits, scale)
}
