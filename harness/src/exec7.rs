//! Conversions: binary floats (C14), integers (C15)
use std::convert::TryFrom;

use bigdecimal::{BigDecimal, FromPrimitive, ToPrimitive};
use num_bigint::{BigInt, ToBigInt};
use serde_json::{json, Value};

use crate::wire::*;

fn bits64(v: &Value) -> u64 {
    json_to_bigint(v).to_u64().expect("u64 bits")
}
fn dec_or_err<E>(r: Result<BigDecimal, E>) -> Value {
    match r {
        Ok(x) => json!({"d": dec_to_json(&x)}),
        Err(_) => json!({"err": "conversion"}),
    }
}
fn dec_or_none(r: Option<BigDecimal>) -> Value {
    match r {
        Some(x) => json!({"d": dec_to_json(&x)}),
        None => json!({"none": 1}),
    }
}
fn int_out<T: Into<BigInt>>(r: Option<T>) -> Value {
    match r {
        Some(x) => json!({"n": bigint_to_json(&x.into())}),
        None => json!({"none": 1}),
    }
}

pub fn exec_more(ev: &Value) -> Value {
    let op = ev["op"].as_str().expect("op");
    let form = ev.get("form").and_then(|f| f.as_str()).unwrap_or("");
    match op {
        "from_float" => {
            let bits = bits64(&ev["bits"]);
            match form {
                "try_from_f64" => dec_or_err(BigDecimal::try_from(f64::from_bits(bits))),
                "from_f64" => dec_or_none(BigDecimal::from_f64(f64::from_bits(bits))),
                "try_from_f32" => dec_or_err(BigDecimal::try_from(f32::from_bits(bits as u32))),
                "from_f32" => dec_or_none(BigDecimal::from_f32(f32::from_bits(bits as u32))),
                _ => panic!("HARNESS: unknown from_float form {}", form),
            }
        }
        "to_float" => {
            let a = json_to_dec(&ev["a"]);
            let f = match form {
                "val" => a.to_f64(),
                "dref" => a.to_ref().to_f64(),
                _ => panic!("HARNESS: unknown to_float form {}", form),
            };
            match f {
                Some(f) => json!({"bits": u128_to_json(f.to_bits() as u128)}),
                None => json!({"none": 1}),
            }
        }
        "float_roundtrip" => {
            let bits = bits64(&ev["bits"]);
            let w = ev["w"].as_u64().unwrap();
            let d = if w == 64 { BigDecimal::try_from(f64::from_bits(bits)) } else { BigDecimal::try_from(f32::from_bits(bits as u32)) };
            match d {
                Err(_) => json!({"err": "conversion"}),
                Ok(d) => match form {
                    "to_f64" => match d.to_f64() { Some(f) => json!({"bits": u128_to_json(f.to_bits() as u128)}), None => json!({"none": 1}) },
                    "to_f64_dref" => match d.to_ref().to_f64() { Some(f) => json!({"bits": u128_to_json(f.to_bits() as u128)}), None => json!({"none": 1}) },
                    "to_f32" => match d.to_f32() { Some(f) => json!({"bits": u128_to_json(f.to_bits() as u128), "out32": true}), None => json!({"none": 1}) },
                    _ => panic!("HARNESS: unknown float_roundtrip form {}", form),
                },
            }
        }
        "to_int" => {
            let a = json_to_dec(&ev["a"]);
            let via_ref = ev.get("via").and_then(|v| v.as_str()) == Some("dref");
            match (form, via_ref) {
                ("i64", false) => int_out(a.to_i64()),
                ("i64", true) => int_out(a.to_ref().to_i64()),
                ("i128", false) => int_out(a.to_i128()),
                ("i128", true) => int_out(a.to_ref().to_i128()),
                ("u64", false) => int_out(a.to_u64()),
                ("u64", true) => int_out(a.to_ref().to_u64()),
                ("u128", false) => int_out(a.to_u128()),
                ("u128", true) => int_out(a.to_ref().to_u128()),
                ("bigint", _) => int_out(a.to_bigint()),
                _ => panic!("HARNESS: unknown to_int form {}", form),
            }
        }
        "is_integer" => json!({"b": json_to_dec(&ev["a"]).is_integer()}),
        "from_int" => {
            let v = json_to_bigint(&ev["v"]);
            macro_rules! conv {
                ($t:ty, $via:ident) => {{
                    let x: $t = if <$t>::MIN == 0 { <$t>::try_from(v.to_u128().expect("u128")).expect("range") } else { <$t>::try_from(v.to_i128().expect("i128")).expect("range") };
                    let _ = stringify!($via);
                    json!({"d": dec_to_json(&BigDecimal::from(x))})
                }};
            }
            match form {
                "i8" => conv!(i8, from), "i16" => conv!(i16, from), "i32" => conv!(i32, from), "i64" => conv!(i64, from), "i128" => conv!(i128, from),
                "u8" => conv!(u8, from), "u16" => conv!(u16, from), "u32" => conv!(u32, from), "u64" => conv!(u64, from), "u128" => conv!(u128, from),
                "bigint" => json!({"d": dec_to_json(&BigDecimal::from(v))}),
                "rbigint" => {
                    // From<&BigInt> exists through BigDecimalRef
                    let r: bigdecimal::BigDecimalRef = (&v).into();
                    json!({"d": dec_to_json(&r.to_owned())})
                }
                "from_i64" => dec_or_none(BigDecimal::from_i64(v.to_i64().expect("i64"))),
                "from_u64" => dec_or_none(BigDecimal::from_u64(v.to_u64().expect("u64"))),
                "from_i128" => dec_or_none(BigDecimal::from_i128(v.to_i128().expect("i128"))),
                "from_u128" => dec_or_none(BigDecimal::from_u128(v.to_u128().expect("u128"))),
                _ => panic!("HARNESS: unknown from_int form {}", form),
            }
        }
        _ => crate::exec8::exec_more(ev),
    }
}
