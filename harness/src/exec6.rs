//! Roots, reciprocal, exp (C10 - C13)
use bigdecimal::BigDecimal;
use serde_json::{json, Value};

use crate::exec::ctx_of;
use crate::wire::*;

fn d(x: BigDecimal) -> Value {
    json!({ "d": dec_to_json(&x) })
}
fn od(x: Option<BigDecimal>) -> Value {
    match x {
        Some(x) => d(x),
        None => json!({"none": 1}),
    }
}

pub fn exec_more(ev: &Value) -> Value {
    let op = ev["op"].as_str().expect("op");
    let form = ev.get("form").and_then(|f| f.as_str()).unwrap_or("");
    match op {
        "sqrt" => {
            let a = json_to_dec(&ev["a"]);
            match form {
                "default" => od(a.sqrt()),
                "ctx" => od(a.sqrt_with_context(&ctx_of(ev))),
                "dref_ctx" => od(a.to_ref().sqrt_with_context(&ctx_of(ev))),
                "dref_abs" => d(a.to_ref().sqrt_abs_with_context(&ctx_of(ev))),
                "dref_copysign" => d(a.to_ref().sqrt_copysign_with_context(&ctx_of(ev))),
                _ => panic!("HARNESS: unknown sqrt form {}", form),
            }
        }
        "cbrt" => {
            let a = json_to_dec(&ev["a"]);
            match form {
                "default" => d(a.cbrt()),
                "ctx" => d(a.cbrt_with_context(&ctx_of(ev))),
                _ => panic!("HARNESS: unknown cbrt form {}", form),
            }
        }
        "inverse" => {
            let a = json_to_dec(&ev["a"]);
            match form {
                "default" => d(a.inverse()),
                "ctx" => d(a.inverse_with_context(&ctx_of(ev))),
                _ => panic!("HARNESS: unknown inverse form {}", form),
            }
        }
        "exp" => d(json_to_dec(&ev["a"]).exp()),
        _ => crate::exec7::exec_more(ev),
    }
}
