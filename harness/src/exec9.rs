//! Further operations
use serde_json::Value;

pub fn exec_more(ev: &Value) -> Value {
    let op = ev["op"].as_str().expect("op");
    panic!("HARNESS: unknown op {}", op)
}
