//! Parsing and text (C05, C04, C16)
use std::str::FromStr;

use bigdecimal::{BigDecimal, Num, ParseBigDecimalError};
use serde_json::{json, Value};

use crate::wire::*;

pub fn err_kind(e: &ParseBigDecimalError) -> &'static str {
    match e {
        ParseBigDecimalError::ParseDecimal(_) => "ParseDecimal",
        ParseBigDecimalError::ParseInt(_) => "ParseInt",
        ParseBigDecimalError::ParseBigInt(_) => "ParseBigInt",
        ParseBigDecimalError::Empty => "Empty",
        ParseBigDecimalError::Other(_) => "Other",
    }
}

fn res(r: Result<BigDecimal, ParseBigDecimalError>) -> Value {
    match r {
        Ok(x) => json!({"d": dec_to_json(&x)}),
        Err(e) => {
            // the error value must be usable: Display must not panic
            let _ = format!("{}", e);
            json!({"err": err_kind(&e)})
        }
    }
}

/// the four entry points (and other radixes) on a string / byte slice
pub fn parse_api(api: &str, text: Option<&str>, bytes: &[u8], radix: u32) -> Value {
    match api {
        "from_str" => res(BigDecimal::from_str(text.expect("text"))),
        "parse" => res(text.expect("text").parse::<BigDecimal>()),
        "from_str_radix10" => res(BigDecimal::from_str_radix(text.expect("text"), 10)),
        "from_str_radix" => res(BigDecimal::from_str_radix(text.expect("text"), radix)),
        "parse_bytes" => match BigDecimal::parse_bytes(bytes, 10) {
            Some(x) => json!({"d": dec_to_json(&x)}),
            None => json!({"err": "None"}),
        },
        "parse_bytes_radix" => match BigDecimal::parse_bytes(bytes, radix) {
            Some(x) => json!({"d": dec_to_json(&x)}),
            None => json!({"err": "None"}),
        },
        _ => panic!("HARNESS: unknown parse api {}", api),
    }
}

pub fn exec_more(ev: &Value) -> Value {
    let op = ev["op"].as_str().expect("op");
    let form = ev.get("form").and_then(|f| f.as_str()).unwrap_or("");
    match op {
        "parse" => {
            let api = ev["api"].as_str().expect("api");
            let radix = ev.get("radix").and_then(|r| r.as_u64()).unwrap_or(10) as u32;
            if let Some(b) = ev.get("bytes") {
                let bytes = json_to_bytes(b);
                let text = std::str::from_utf8(&bytes).ok().map(|s| s.to_string());
                parse_api(api, text.as_deref(), &bytes, radix)
            } else {
                let text = json_to_text(&ev["text"]);
                parse_api(api, Some(&text), text.as_bytes(), radix)
            }
        }
        _ => crate::exec5::exec_more(ev),
    }
}
