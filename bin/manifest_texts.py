NOTES = ("Model-based verification with an explicit TLA+ specification. The specification is the only oracle: "
         "expected values, accept/reject decisions and rounding directions are computed by TLC from spec/*.tla; "
         "the Rust harness only dispatches calls into the crate and records outcomes. See DESIGN.md.")

COMMON_NOTE = ("Trusted: TLC and the CommunityModules fold overrides; the BigNat digit-sequence arithmetic of the "
               "specification (itself model-checked against native arithmetic, MC_BigNat); num-bigint's decimal "
               "string conversion used by the harness wire format; serde_json; catch_unwind. Small scope exhaustive, "
               "large scope sampled with boundary-directed generators: no unbounded proof.")

TEXT = {
    "C01": dict(
        level="TLC validates, event by event, traces of the real crate against the exact-arithmetic operators of the TLA+ "
              "specification (align-then-add on decimal digit sequences, convolution product): every one of the 386 "
              "overloads of + - * (owned/borrowed/BigDecimalRef/BigInt/&BigInt/10 primitive widths by value and by "
              "reference/compound assignment) meets every scale-gap class (0..45, 585..595, multiples of 19 and 16 to 10^4), "
              "operands to 700 (quick) / 3000 (thorough) digits, zeros carrying a scale, ones written 1.00, equal values in "
              "different representations, primitive MIN/MAX/0/+-1/+-2; plus double/half/square/cube/neg/abs/sum. "
              "Model checking level because the verdict is computed by the model checker from the specification, and "
              "the small-scope operator laws are checked exhaustively by TLC.",
        note=COMMON_NOTE,
        technique="TLA+ trace validation with TLC (impl -> spec) + TLC-generated behaviours replayed on the crate (spec -> impl)",
        ref="DESIGN.md section 7 C01"),
    "C18": dict(
        level="TLC validates traces of constructors, accessors, digits()/count_digits(), normalized(), with_scale / "
              "to_owned_with_scale / with_prec extension against the representation-level operators of the TLA+ "
              "specification: every 10^k, 10^k-1, 10^k+1 for k in 0..700 (quick) / 0..5000 (thorough), random decimals with "
              "up to 5000 trailing zeros, scale extensions crossing the three power-of-ten algorithms, zeros with any scale "
              "and 64-bit boundary scales (ZInt scales in the specification).",
        note=COMMON_NOTE,
        technique="TLA+ trace validation with TLC; representation pinned exactly (sign, digits, scale)",
        ref="DESIGN.md section 7 C18"),
}
NA = {}
