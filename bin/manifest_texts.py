NOTES = ("Model-based verification with an explicit TLA+ specification. The specification is the only oracle: "
         "expected values, accept/reject decisions and rounding directions are computed by TLC from spec/*.tla; "
         "the Rust harness only dispatches calls into the crate and records outcomes. See DESIGN.md.")

COMMON_NOTE = ("Trusted: TLC and the CommunityModules fold overrides; the BigNat digit-sequence arithmetic of the "
               "specification (itself model-checked against native arithmetic, MC_BigNat); num-bigint's decimal "
               "string conversion used by the harness wire format; serde_json; catch_unwind. Small scope exhaustive, "
               "large scope sampled with boundary-directed generators: no unbounded proof.")

TEXT = {
    "C01": dict(
        level="MC_Arith (TLC, exhaustive small scope) checks the exact-arithmetic operators of the specification against TLC's "
              "native integers, the ring laws and the scale bookkeeping, and prints small operand pairs that the harness runs "
              "through all 386 spellings. TLC validates, event by event, traces of the real crate against those operators "
              "(align-then-add on decimal digit sequences, convolution product): every one of the 386 "
              "overloads of + - * (owned/borrowed/BigDecimalRef/BigInt/&BigInt/10 primitive widths by value and by "
              "reference/compound assignment) meets every scale-gap class (0..45, 254..277, 511..532, 585..595, multiples of 19 and 16 to 10^4), "
              "operands to 700 (quick) / 3000 (thorough) digits, zeros carrying a scale, ones written 1.00, equal values in "
              "different representations, primitive MIN/MAX/0/+-1/+-2; plus double/half/square/cube/neg/abs/sum. "
              "Model checking level because the verdict is computed by the model checker from the specification, and "
              "the small-scope operator laws are checked exhaustively by TLC.",
        note=COMMON_NOTE,
        technique="TLA+ trace validation with TLC (impl -> spec) + TLC-generated behaviours replayed on the crate (spec -> impl)",
        ref="DESIGN.md section 7 C01"),
    "C02": dict(
        level="MC_EqWords models the allocation-free word-by-word equality loop as a state machine with scaled-down machine words: the "
              "repaired design is right for all operands, the shipped design (wrapping carry addition) is refuted by TLC (thorough "
              "tier, expected violation). MC_Cmp (TLC, exhaustive: all pairs of decimals with |unscaled| <= 25/60 at scales -2..2, all triples of a "
              "smaller pool) shows three independent definitions of the order agree (aligned digits, adjusted-exponent-first "
              "on ZInt scales, sign of the exact difference), that == is cmp = 0, antisymmetry, transitivity, totality. Every "
              "small pair is printed by TLC and replayed through all 18 comparison spellings (==, !=, <, <=, >, >=, cmp, "
              "partial_cmp on BigDecimal, &BigDecimal, BigDecimalRef) plus max/min; the driver adds value-equal pairs with scale "
              "gaps 1..19 / >= 20, one-ulp neighbours, operands whose 32-bit words sit at floor(2^64/10^k)+-1 (k = 1..19, word "
              "positions 0..3), pairs differing in one 32-bit word or by a dropped top word, a non-zero digit right below the other "
              "operand's last place, every scale difference 20..700/1100 with power-of-two-like coefficients (bit-length prefilter), "
              "u32/u64/u128 fast-path limits, scale "
              "differences around and beyond 2^63, up to 600/3000 digits, sort/max/min; all recorded with a checked "
              "(overflow-checks, debug-assertions) and a release build, and every event is validated by TLC. A panic or a "
              "profile-dependent answer is an unexplained event.",
        note=COMMON_NOTE,
        technique="TLC model checking of the order (MC_Cmp), of the equality loop (MC_EqWords) and of the ordering pipeline as a stage-by-stage state machine (MC_CmpMech) + TLC-generated pairs replayed on the crate + TLA+ trace validation, two build profiles",
        ref="DESIGN.md section 7 C02"),
    "C03": dict(
        level="MC_Cmp checks at design level that the hash mechanism anchored in the code (decimal string, trim up to `scale` "
              "trailing zeros, append `-scale` zeros, zero = \"0\") maps equal values to equal strings for all small pairs. Trace "
              "validation is stateful: the specification remembers, per normal form, the digest (FNV-1a-128 of the byte stream fed "
              "to a recording Hasher, its length, and DefaultHasher's output) of the first representation seen, and every later "
              "representation of the same value must reproduce it - the digest covers the byte stream AND the sequence of "
              "Hasher::write calls; whenever the crate's own == says two decimals are equal their digests must agree (eq_hash "
              "events on pairs with equal low words); HashSet cardinality = number of distinct values. Groups of "
              "equal values with 0..120/300 extra trailing zeros, negative scale vs written-out zeros, zero runs longer than the "
              "scale, zeros with any scale, |scale| up to 2*10^4 / 10^5.",
        note=COMMON_NOTE + " FNV-1a-128 collision-freeness on the recorded byte streams.",
        technique="TLC model checking of the hash-key mechanism + stateful TLA+ trace validation (history variable: value -> digest)",
        ref="DESIGN.md section 7 C03"),
    "C04": dict(
        level="MC_Fmt (TLC, exhaustive small scope, three configurations) shows mechanism-level text builders of every formatter "
              "(spec/Fmt.tla) satisfy the declarative relation used below. TLC validates every rendering recorded from the crate: the output must be a numeral of the TLA+ grammar, the "
              "crate's own parser must read it back as the grammar's ParseValue says (so a formatter bug cannot hide behind a "
              "parser bug), and the re-parsed decimal must relate to the original as the property states per renderer: identical "
              "digits and scale for {:e}, {:E}, scientific, plain with scale >= 0 and Display outside its padded range; exactly "
              "-scale written-out zeros (scale 0) for padded Display and plain notation of negative scales; value-equal with an "
              "exponent divisible by 3 for engineering notation; Display uses an exponent exactly beyond the configured zero "
              "thresholds and stays within digits + constant characters. Inputs: every digit length 1..40 x every scale -40..60 "
              "x several digit shapes, zeros with scales -60..80, threshold neighbourhoods, 800/3000-digit strings, scales to "
              "+-10^15 for the exponent formats, values, references and write_* variants.",
        note=COMMON_NOTE,
        technique="TLA+ trace validation with TLC against the numeral grammar and ParseValue of the specification (relational)",
        ref="DESIGN.md section 7 C04"),
    "C05": dict(
        level="MC_Parse (TLC, exhaustive: all 1.95 M strings of length <= 6, thorough 21.4 M of length <= 7, over "
              "{0,1,7,+,-,.,e,E,_,x,space}) shows the user-level numeral grammar and the anchored mechanism (split at first e/E, "
              "i128 exponent, split at first '.', concatenation, big-integer parser acceptance) accept the same strings with the "
              "same values. Conformance over the same finite domain in both directions: TLC prints every numeral and the harness "
              "parses it through from_str / str::parse / from_str_radix(10) / parse_bytes (numeral => accepted with the denoted "
              "value); the harness enumerates every string of the domain and records each one any entry point accepts or panics "
              "on, also under radix 2/16/36 (accepted => numeral, no panic, no other radix); TLC validates both traces. Plus "
              "grammar-generated numerals to 1200/5000 digits, exponents at +-(2^63 + {-3..3}) with and without fraction digits, "
              "39/40-digit exponents, byte-level mutations including NUL, non-ASCII digits and invalid UTF-8.",
        note=COMMON_NOTE,
        technique="TLC model checking (grammar vs mechanism, exhaustive strings) + TLC-generated numerals replayed + TLA+ trace validation of the exhaustive accepted-string trace",
        ref="DESIGN.md section 7 C05"),
    "C06": dict(
        level="MC_Round (TLC, exhaustive: |unscaled| <= 1200 quick / 9999 thorough x scales -3..8 x all targets within 4 of either "
              "end x 7 modes, 2.5 M / 24 M states) shows the mechanism-level RoundToScale (digit pair at the rounding point, tail "
              "flag, carry) satisfies the declarative IsRoundedTo (neighbouring multiple chosen by the mode, ties on the whole "
              "tail), that the declaration is functional, truncation = Down, directed-mode and symmetry laws, and the 4200-argument "
              "digit-pair table. TLC prints every small decimal; the harness runs with_scale_round (all targets x 7 modes), "
              "with_scale, to_owned_with_scale and round on each (|unscaled| <= 300 / 2000: 0.78 M / 5.6 M calls) and TLC validates "
              "every call; the driver adds decimals to 700/3000 digits with ties, near ties, all-nines carries, targets left of the "
              "leading digit, zeros, both signs, all 4200 round_pair arguments and round_u32.",
        note=COMMON_NOTE,
        technique="TLC model checking (mechanism vs declaration) + TLC-generated exhaustive small scope and simulated mixed programs replayed on the crate + TLA+ trace validation",
        ref="DESIGN.md section 7 C06"),
    "C07": dict(
        level="Same MC_Round model (precision rounding = scale rounding at scale + p - digits; an added digit only on an all-nines "
              "carry). TLC-printed small decimals are run through with_precision_round (p = 1..digits+5 x 7 modes), with_prec and "
              "the Context entry points (round_decimal, round_decimal_ref on &BigDecimal / BigDecimalRef / &BigInt, "
              "round_with_context, add_refs, add_refs_into); the driver adds 700/3000-digit inputs with ties at the p-th digit, "
              "p = digits-1, digits, digits+1, sums needing more than p digits, negatives through with_prec, and precisions / "
              "scales at the i64 guards (ZInt arithmetic in the specification: the documented panic is the only alternative to "
              "the right answer).",
        note=COMMON_NOTE,
        technique="TLC model checking + TLC-generated exhaustive small scope and simulated mixed programs replayed on the crate + TLA+ trace validation",
        ref="DESIGN.md section 7 C07"),
    "C08": dict(
        level="TLC-printed small operand pairs are divided in every applicable spelling. The specification never divides to judge a quotient: r is accepted iff r*b = a exactly, or r has the sign of a/b, at "
              "least `precision` digits, 2*|r*b - a| <= |b|*ulp(r), a tie only when |r*b| > |a| (away from zero), and - checked by "
              "one long division only in the single corner where it can matter - the true quotient does not terminate within the "
              "precision. A zero divisor admits exactly one outcome, a panic, in all 112 division spellings (every primitive width "
              "by value and by reference on either side, /=, float numerators). A history variable makes all spellings of the same "
              "division return the same value. MC_Rem (TLC, exhaustive small scope) shows the crate's digit-loop mechanism "
              "(shift the numerator, one digit per iteration, final half-up step) satisfies this relation for precisions 1..3. "
              "Division by a primitive +-2 must be the exact half in every spelling; float operands stand for their exact decimal. "
              "Driver: quotients built to terminate, tie (..5 at digit P+1, generated inside the digit loop) or nearly tie around "
              "the P-th digit, divisors 2^i 5^j, operands to 500/2000 digits, |a| << |b| and >> |b|, equal unscaled integers.",
        note=COMMON_NOTE + " Float DIVISORS and `1 / x` (the reciprocal, C12) are judged by their own relations.",
        technique="TLC model checking of the division mechanism against the relation (MC_Rem) + simulated mixed programs replayed on the crate + relational, stateful TLA+ trace validation",
        ref="DESIGN.md section 7 C08"),
    "C09": dict(
        level="MC_Rem (TLC, exhaustive small scope with scale gaps up to 130) shows the remainder operator of the specification "
              "satisfies the truncated-division identity with an integer quotient, |r| < |b|, sign(r) in {0, sign(a)}, "
              "independence of sign(b), and that the formulation used for 10^4-digit scale gaps (split dividend / square-and-"
              "multiply power of ten) agrees with the naive one; every small pair is printed and replayed. All five spellings (four ownership forms and %=) are run on the "
              "same operands - each re-implements the alignment - for every gap 0..45, gaps around 256, 512, 590, 1000, 4096, "
              "10^4 in both directions, operands to 400/2000 digits, exact multiples, equal operands; zero divisors must panic.",
        note=COMMON_NOTE,
        technique="TLC model checking of the remainder identity (MC_Rem) + simulated mixed programs replayed on the crate + TLA+ trace validation (functional)",
        ref="DESIGN.md section 7 C09"),
    "C10": dict(
        level="MC_Roots (TLC, exhaustive small scope) shows the relation below accepts exactly one grid point per (x, p, mode) - the one "
              "an independent native-integer mechanism (integer root + sticky flag) computes - and prints every small x, which the "
              "harness runs at p = 1..6 under all modes. Relational specification, no square root in the oracle: from x alone the leading exponent E = floor(adj(x)/2) of the "
              "root and the grid unit u = 10^(E-p+1) are fixed; the result r is accepted iff it lies on the grid, f in {r, r-u} "
              "brackets the root (f^2 <= x < (f+u)^2) and r is the neighbour the mode selects, using exactness f^2 = x and the "
              "comparison of (2f+u)^2 with 4x for the tie rules. TLC validates every recorded call: perfect squares, perfect "
              "squares +-1 unit in a digit 3..60 places away, squares of rounding midpoints and their +-1 neighbours, roots with "
              "5000..1 / 4999..9 tails, inputs longer than 2(p+5) digits, scales of both parities to +-2000, p in 1..150 and 100, "
              "7 modes, sqrt / sqrt_with_context / BigDecimalRef forms (abs, copysign), negative => None, zero => zero, up to "
              "500/2000 digits.",
        note=COMMON_NOTE,
        technique="TLC model checking of the relation and of the transcribed sqrt routine (MC_Roots) + simulated mixed programs replayed + relational TLA+ trace validation with TLC (squares and comparisons only)",
        ref="DESIGN.md section 7 C10"),
    "C11": dict(
        level="MC_Roots as for C10 (both signs). Same relational scheme with cubes (E = floor(adj/3), (2f+u)^3 vs 8x), Floor/Ceiling interpreted on the signed value so "
              "that the mirror law cbrt(-x, m) = -cbrt(x, mirror(m)) is part of the relation; all residues of the scale mod 3, "
              "perfect cubes +-1 far unit, midpoint cubes, inputs longer than 3(p+4) digits, both signs, p in 1..150/160.",
        note=COMMON_NOTE,
        technique="TLC model checking of the relation and of the transcribed cbrt routine (MC_Roots) + simulated mixed programs replayed + relational TLA+ trace validation with TLC (cubes and comparisons only)",
        ref="DESIGN.md section 7 C11"),
    "C12": dict(
        level="MC_Roots checks the relation against native division (floor and ceiling acceptable, only the exact value when 1/x "
              "terminates) and prints small x for replay at p = 1..6. Relation: sign(r) = sign(x), |x*r - 1| < |x|*u with u one unit of the p-th digit of 1/x, and x*r = 1 exactly whenever "
              "1/x terminates within p digits (divisibility of a power of ten, decided by one division only when x is short "
              "enough to divide it); a history variable enforces inverse(-x, mirror(m)) = -inverse(x, m); a watchdog timeout is an "
              "unexplained event (termination). Driver: all 2^i 5^j (i <= 24/60, j <= 12/30) at p = exact length + {-1,0,1,2,3,6} "
              "under every mode, 99..9 / 100..01 / powers of ten at p in {1..5, 100}, random x to 400/1500 digits with p in 1..150, "
              "scales to +-2000, bit lengths around the f64 underflow of the initial guess, `1 / x` with primitive ones. (The early-stop "
              "defect at p <= 3 this check found is repaired in /repo; its former deviation no longer exists.) "
              "MC_Inverse is a state machine of the routine itself (exact binary64 guess, one action per Newton step, convergence test, final rounding): "
              "guess in the basin, exact quadratic error identity, termination by the loop's own test (invariant and liveness under weak fairness), result within the relation - "
              "for n <= 400/3000, p <= 4/6, all modes; its behaviours are replayed on the crate with digit-for-digit comparison (informational); the variant as shipped "
              "violates the relation (expected-violation run, thorough). Mixed programs (Gen_Mixed.cfg) with inverse steps as hard verdicts.",
        note=COMMON_NOTE,
        technique="TLC model checking of the relation (MC_Roots) and of the routine as a state machine (MC_Inverse, safety + liveness) + replay of its behaviours + relational, stateful TLA+ trace validation",
        ref="DESIGN.md section 7 C12"),
    "C13": dict(
        level="MC_Exp checks the enclosure itself (L <= U, width, nesting, 50 known digits of e, acceptance / rejection). The specification computes, in TLA+ fixed-point decimal arithmetic with directed rounding, a rigorous enclosure [L, U] "
              "of e^|x| (exact argument reduction by 2^m = 10^m / 5^m, Taylor sum with explicit tail bound, m interval squarings) "
              "that is > 25 digits tighter than an ulp; the crate's result r is accepted iff r > 0 and [r-ulp, r+ulp] meets the "
              "enclosure (for x < 0 tested by multiplication against 1/U, 1/L); exp(0) = 1 exactly. Each evaluation costs TLC "
              "0.5-5 s, so inputs are few and chosen: integers -120..120 (every 9th quick, all thorough), 1..40-digit arguments "
              "with magnitudes 1e-60..1e2 (quick) / 1e3 (thorough), truncations of k*ln 10 (+-1 in the last place) where e^x "
              "crosses a power of ten. |x| <= 1000 is sampled (30 arguments, thorough), not swept.",
        note=COMMON_NOTE + " The enclosure operators are part of the specification (spec/Exp.tla).",
        technique="TLC model checking of exp as a state machine (MC_ExpMech, safety + liveness) with replay of its behaviours + TLA+ trace validation with TLC against an interval enclosure computed by the specification",
        ref="DESIGN.md section 7 C13"),
    "C14": dict(
        level="MC_Floats (TLC, exhaustive) checks the decoder against the native formula on all 65536 binary16 patterns. The specification decodes IEEE-754 bit patterns (sign / exponent field / mantissa split by long division, subnormals, "
              "2^k and 5^k from constant tables) into the exact decimal they denote. float -> decimal must be that value exactly "
              "(NaN, infinities => error); float -> decimal -> to_f64 must return the identical bit pattern (-0.0 => +0.0; a "
              "binary32 comes back as the same value, checked on the fields); to_f64 of an arbitrary decimal must have the right "
              "sign, relative error <= 2^-48 in the normal range, infinity only beyond or within that tolerance of f64::MAX, and "
              "at most one subnormal step of error below MIN_POSITIVE. Inputs: every binary32 exponent field x boundary and "
              "random mantissas x both signs, 127 (quick) / all 2048 (thorough) binary64 exponent fields likewise, the lowest 70 "
              "subnormals, the neighbourhoods of MIN_POSITIVE and MAX, few-bit mantissas (short decimal expansions) over 115 binades, "
              "the binades where the integer leaves u64 / u128, random bit patterns, decimals of 1..400 digits with "
              "exponents -400..400, exact halfway cases between adjacent floats and their far-digit neighbours. The exhaustive "
              "2^32 binary32 sweep of the property's quantifier is NOT reached (stratified sample instead). to_f64 is also driven at scales beyond the i32 range up to the i64 limits (wide relation WToF64OK: zero within one subnormal step when tiny, the infinity of the sign when huge); the defect this exposed is repaired in /repo (033eff2).",
        note=COMMON_NOTE,
        technique="TLA+ trace validation with TLC against an exact IEEE-754 decoder in the specification",
        ref="DESIGN.md section 7 C14"),
    "C15": dict(
        level="MC_Floats.ConvertRight checks the conversion verdicts against native truncation on 8-bit types. The specification truncates toward zero by digit shift, compares with the type's range as a big integer (ZInt), and "
              "lets a negative decimal never convert to an unsigned type; is_integer <=> the low `scale` digits are zero; "
              "From<primitive>/From<BigInt>/FromPrimitive are exact with scale 0. TLC validates to_i64/to_i128/to_u64/to_u128/"
              "to_bigint on values and references for every value within +-2 and +-0.5 of each MIN/MAX (also of the narrower "
              "types and one past the limits) at scales 0,1,2,5,19,40, negative scales pushing a small unscaled value over a "
              "limit, fractions in (-1,1), zeros with scales, 6000/60000 random decimals of 1..60 digits at scales -40..40.",
        note=COMMON_NOTE,
        technique="TLA+ trace validation with TLC (functional)",
        ref="DESIGN.md section 7 C15"),
    "C16": dict(
        level="The specification defines {:.N} as: a numeral with exactly N fraction digits whose value is RoundToScale(x, N, "
              "configured mode) - the same operator that decides C06 - or, for integers whose padding would exceed the limit, an "
              "unpadded numeral denoting exactly x; {:.Ne}/{:.NE} as N mantissa fraction digits and the value RoundToPrec(x, N+1, "
              "mode); and width/fill/alignment/'+'/'0' as std's padding around the flag-free numeral. TLC-printed small decimals "
              "(|unscaled| <= 300 / 2000, scales -3..8) are formatted for every N in 0..9 in the three notations on values and "
              "references; the driver adds 300-digit inputs, scales -1100..400, N to 1100 around the padding limit, ties, all "
              "nines, values below half a unit, all 36 flag combinations x widths. TLC validates every event.",
        note=COMMON_NOTE + " The padding model follows std::fmt::Formatter::pad_integral.",
        technique="TLC model checking of rounding (MC_Round) + TLC-generated exhaustive small scope replayed + TLA+ trace validation",
        ref="DESIGN.md section 7 C16"),
    "C17": dict(
        level="The harness is built with the crate's serde and serde-json features (absent from the pinned test run). The specification "
              "requires: the serialized document is a JSON string (default form, serde_json::Value, a recording token Serializer) "
              "or a JSON number of the RFC 8259 grammar inside {\"v\":...} (json_num / json_num_option) whose numeral relates to the "
              "decimal exactly as Display does (C04's relation: digits and scale preserved wherever Display preserves them); "
              "deserializing it gives exactly ParseValue of that numeral and a decimal equal to the original; beyond the "
              "configured scale limit the adapters report an error; None <-> null. JSON documents (numbers of 1..2000 digits, "
              "fractions, exponents around the limit, numeric strings, whitespace, 28 malformed shapes) must be read digit for "
              "digit or rejected with an error value, never a panic; integer tokens of every width (MIN/MAX/random), f32/f64 "
              "tokens (exact IEEE value, NaN/inf => error) and str/String tokens likewise. Known finding KF-C17-value-through-f64 "
              "(serde_json::from_value path) is reported as KNOWN-FINDING.",
        note=COMMON_NOTE + " serde, serde_json, serde_derive as resolved offline.",
        technique="TLA+ trace validation with TLC (numeral and JSON-number grammars, ParseValue, Display relation of the specification)",
        ref="DESIGN.md section 7 C17"),
    "C18": dict(
        level="MC_BigNat (digit-sequence arithmetic = native arithmetic), MC_Mech (the three-algorithm power of ten, digit counting from "
              "a bit-length estimate, get_rounding_term, lazy trailing-zero flag: mechanism models checked exhaustively on bounded "
              "scopes) and MC_Arith.ReprLaws (normal forms, exact rescaling) are model-checked; small decimals are printed and replayed "
              "through every accessor. TLC validates traces of constructors, accessors, digits()/count_digits(), normalized(), with_scale / "
              "to_owned_with_scale / with_prec extension against the representation-level operators of the TLA+ "
              "specification: every 10^k, 10^k-1, 10^k+1 for k in 0..700 (quick) / 0..5000 (thorough), random decimals with "
              "up to 5000 trailing zeros, scale extensions crossing the three power-of-ten algorithms, zeros with any scale "
              "and 64-bit boundary scales (ZInt scales in the specification).",
        note=COMMON_NOTE,
        technique="TLA+ trace validation with TLC; representation pinned exactly (sign, digits, scale)",
        ref="DESIGN.md section 7 C18"),
    "C19": dict(
        level="Machine.tla is the decimal machine: registers holding representations, a ghost holding exact values on normal "
              "forms, one action per exact operation, and a NON-DETERMINISTIC representation of every result. MC_Programs (TLC, "
              "exhaustive: all programs of 2 (quick) / 3 (thorough) operations over a pool of special operands - zero with a "
              "scale, one written 1.00, powers of ten, value-equal twins, both signs - and every representation choice of every "
              "intermediate) shows register values, comparisons, equality and hash keys never depend on representations. "
              "Gen_Programs (TLC -simulate, 1500 / 30000 behaviours of 40 steps, six registers, digit-growth guard carried in "
              "the state) generates programs whose every step names its overload (386 spellings of + - *, neg/abs/double/half/"
              "square/upward rescale/normalize/clone through references/sum) with cmp / == / hash observations in between; the "
              "harness executes them on the crate, and TLC validates every step against its own register state, "
              "resynchronising after each result so that one defect cannot hide the next. The harness adds 500 / 6000 programs "
              "with operands to 150/400 digits and primitive MIN/MAX operands.",
        note=COMMON_NOTE,
        technique="TLC model checking of the decimal machine with exact and rounding steps (MC_Programs) + TLC -simulate generated exact and mixed programs replayed on the crate + stateful TLA+ trace validation",
        ref="DESIGN.md section 7 C19"),
    "C20": dict(
        level="The harness is rebuilt (own target directory) under 4 (quick) / 20 (thorough) build-time configurations drawn from "
              "precision {1,2,3,7,16,34,100,250} x 7 rounding modes x lower threshold {1,5,9} x upper threshold {0,2,15,40} x "
              "padding limit {0,5,1000} (every value of every knob at least twice). The first line of each trace carries the "
              "configuration as recorded by the harness's own build script from the RUST_BIGDECIMAL_* environment - not read back "
              "from the crate - and the specification's `cfg` variable takes it; every default-context action (Context::default, "
              "sqrt, cbrt, inverse, 1/x, division, exp, round, Display, {:.N}, {:.Ne}) is then judged by the explicit-context "
              "operator instantiated with cfg: division small-scope exhaustive (all numerators and denominators below 160 / 1000 "
              "at precisions <= 3), roots of perfect powers and midpoints at the configured precision, exp to the configured "
              "digits, ties under the configured mode, values below one unit of the last printed place, Display at threshold "
              "+-3 zeros, integer padding at the limit +-2. TLC validates every event.",
        note=COMMON_NOTE + " Rebuilding relies on cargo re-running the crate's build.rs when the RUST_BIGDECIMAL_* variables change (checked: the rebuilt harness must report the requested configuration).",
        technique="TLA+ trace validation with TLC where the specification's configuration variable is bound by the trace; one rebuilt harness per configuration; the exp state machine (MC_ExpMech) model-checked per configured precision and replayed on that build",
        ref="DESIGN.md section 7 C20"),
}
NA = {}
