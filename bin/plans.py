"""Per-property plans: which models are checked, which behaviours are generated, which drivers run."""

def _cfg(precision=100, mode="HalfEven", low=5, high=15, pad=1000):
    return {"RUST_BIGDECIMAL_DEFAULT_PRECISION": str(precision), "RUST_BIGDECIMAL_DEFAULT_ROUNDING_MODE": mode,
            "RUST_BIGDECIMAL_FMT_EXPONENTIAL_LOWER_THRESHOLD": str(low), "RUST_BIGDECIMAL_FMT_EXPONENTIAL_UPPER_THRESHOLD": str(high),
            "RUST_BIGDECIMAL_FMT_MAX_INTEGER_PADDING": str(pad)}


# every value of every knob at least twice over the thorough list; quick = the first four
C20_CONFIGS = [
    _cfg(7, "Up", 9, 2, 5), _cfg(2, "Floor", 1, 40, 1000), _cfg(34, "HalfDown", 5, 0, 0), _cfg(250, "Ceiling", 1, 15, 5),
    _cfg(1, "Down", 5, 2, 1000), _cfg(3, "HalfUp", 9, 40, 0), _cfg(16, "HalfEven", 1, 0, 5), _cfg(100, "Up", 9, 15, 0),
    _cfg(1, "Ceiling", 9, 0, 1000), _cfg(2, "HalfDown", 5, 15, 5), _cfg(3, "Down", 1, 2, 0), _cfg(7, "Floor", 5, 40, 5),
    _cfg(16, "HalfUp", 1, 2, 1000), _cfg(34, "HalfEven", 9, 40, 1000), _cfg(100, "Floor", 5, 0, 5), _cfg(250, "HalfUp", 5, 15, 0),
    _cfg(7, "HalfDown", 1, 15, 1000), _cfg(16, "Down", 9, 0, 0), _cfg(34, "Up", 1, 2, 5), _cfg(100, "Ceiling", 9, 2, 1000),
]

# programs mixing exact operations with rounding, division, remainder, roots and reciprocal (tlc -simulate); in the check
# of property P the steps of P's operations are hard verdicts, all other steps informational
def MIXED(q=300, t=4000):
    return dict(model="Gen_Programs", name="Gen_Mixed", quick="Gen_Mixed.cfg",
                simulate=dict(quick=dict(num=q, depth=48), thorough=dict(num=t, depth=48)))


PLANS = {
    "C01": dict(
        check_forms=["add", "sub", "mul"],
        mcgen=[dict(model="MC_Arith", quick="MC_Arith_quick.cfg", thorough="MC_Arith_thorough.cfg")],
        drive=True,
        assumptions=[],
    ),
    "C02": dict(
        mc=[dict(model="MC_EqWords", quick="MC_EqWords_fixed.cfg", thorough="MC_EqWords_fixed32.cfg"),
            dict(model="MC_EqWords", quick="MC_EqWords_shipped.cfg", only="thorough", expect_violation="VerdictRight"),
            dict(model="MC_CmpMech", quick="MC_CmpMech_quick.cfg", thorough="MC_CmpMech_quick.cfg"),
            dict(model="MC_CmpMech", quick="MC_CmpMech_slip.cfg", only="thorough", expect_violation="Right"),
            dict(model="MC_CmpMech", quick="MC_CmpMech_NeverAtDigitTail.cfg", only="thorough", expect_violation="NeverAtDigitTail"),
            dict(model="MC_CmpMech", quick="MC_CmpMech_NeverAtCount.cfg", only="thorough", expect_violation="NeverAtCount"),
            dict(model="MC_CmpMech", quick="MC_CmpMech_NeverAtScalar2.cfg", only="thorough", expect_violation="NeverAtScalar2")],
        mcgen=[dict(model="MC_Cmp", quick="MC_Cmp_quick.cfg", thorough="MC_Cmp_thorough.cfg")],
        profiles=["checked", "release"],
        drive=True, shard=12000,
    ),
    "C03": dict(
        mcgen=[dict(model="MC_Cmp", quick="MC_Cmp_quick.cfg", thorough="MC_Cmp_thorough.cfg")],
        drive=True,
    ),
    "C04": dict(drive=True, mcgen=[dict(model="MC_Fmt", quick="MC_Fmt_quick.cfg", thorough="MC_Fmt_thorough.cfg")]),
    "C05": dict(
        mcgen=[dict(model="MC_Parse", quick="MC_Parse_quick.cfg", thorough="MC_Parse_thorough.cfg")],
        drive=True,
        bounds=dict(quick=dict(exhaustive_domain="every string of length <= 6 over {0,1,7,+,-,.,e,E,_,x,space}: 1 948 717 strings, model-checked (grammar vs mechanism), every numeral replayed, every accepted/panicking string validated", sampled="numerals to 1200 digits, exponents 2^63 +- 3, mutations"),
                    thorough=dict(exhaustive_domain="every string of length <= 7 over the same alphabet: 21 435 888 strings", sampled="numerals to 5000 digits")),
    ),
    "C06": dict(
        mcgen=[dict(model="MC_Round", quick="MC_Round_quick.cfg", thorough="MC_Round_thorough.cfg")],
        gen=[MIXED()],
        drive=True,
        bounds=dict(quick=dict(model_checked="|unscaled| <= 1200 x scales -3..8 x targets within 4 of either end x 7 modes", replayed_on_crate="|unscaled| <= 300, same scales/targets/modes, exhaustively", not_reached="the property's |unscaled| < 10^5"),
                    thorough=dict(model_checked="|unscaled| <= 30000", replayed_on_crate="|unscaled| <= 2000 exhaustively", not_reached="30000 < |unscaled| < 10^5")),
    ),
    "C07": dict(
        mcgen=[dict(model="MC_Round", quick="MC_Round_quick.cfg", thorough="MC_Round_thorough.cfg")],
        gen=[MIXED()],
        drive=True,
    ),
    "C08": dict(check_forms=["div"], drive=True, gen=[MIXED()],
                mcgen=[dict(model="MC_Rem", quick="MC_Rem_quick.cfg", thorough="MC_Rem_thorough.cfg")]),
    "C09": dict(check_forms=["rem"], drive=True, gen=[MIXED()],
                mcgen=[dict(model="MC_Rem", quick="MC_Rem_quick.cfg", thorough="MC_Rem_thorough.cfg")]),
    "C10": dict(drive=True, gen=[MIXED()], mcgen=[dict(model="MC_Roots", quick="MC_Roots_quick.cfg", thorough="MC_Roots_thorough.cfg")]),
    "C11": dict(drive=True, gen=[MIXED()], mcgen=[dict(model="MC_Roots", quick="MC_Roots_quick.cfg", thorough="MC_Roots_thorough.cfg")]),
    "C12": dict(drive=True, shard=1500, gen=[MIXED()],
                mc=[dict(model="MC_Inverse", quick="MC_Inverse_shipped.cfg", only="thorough", expect_violation="ResultOK")],
                mcgen=[dict(model="MC_Roots", quick="MC_Roots_quick.cfg", thorough="MC_Roots_thorough.cfg"),
                       dict(model="MC_Inverse", quick="MC_Inverse_quick.cfg", thorough="MC_Inverse_thorough.cfg")]),
    "C13": dict(drive=True, mc=[dict(model="MC_Exp", quick="MC_Exp.cfg", workers=6)],
                mcgen=[dict(model="MC_ExpMech", quick="MC_ExpMech_t100q.cfg", thorough="MC_ExpMech_t100.cfg", timeout=3600)]),
    "C14": dict(drive=True, shard=700, mc=[dict(model="MC_Floats", quick="MC_Floats.cfg")],
                bounds=dict(quick=dict(model_checked="all 65536 binary16 patterns (decoder generic in the field widths)", not_reached="the exhaustive sweep of all 2^32 binary32 patterns: stratified sample (every exponent field x boundary / few-bit / random mantissas x both signs)"),
                            thorough=dict(model_checked="all 65536 binary16 patterns", not_reached="the exhaustive 2^32 binary32 sweep (about 4*10^9 events at 30 events/s/JVM)"))),
    "C15": dict(drive=True, mc=[dict(model="MC_Floats", quick="MC_Floats.cfg")]),
    "C16": dict(
        mcgen=[dict(model="MC_Round", quick="MC_Round_quick.cfg", thorough="MC_Round_thorough.cfg"),
               dict(model="MC_Fmt", quick="MC_Fmt_quick.cfg", thorough="MC_Fmt_thorough.cfg")],
        drive=True,
    ),
    "C17": dict(drive=True, shard=1500,
                mc=[dict(model="MC_Parse", quick="MC_Parse_c17.cfg", thorough="MC_Parse_c17.cfg"),
                    dict(model="MC_Fmt", quick="MC_Fmt_c17.cfg", thorough="MC_Fmt_c17.cfg")]),
    "C18": dict(mc=[dict(model="MC_BigNat", quick="MC_BigNat_quick.cfg", thorough="MC_BigNat_thorough.cfg"),
                    dict(model="MC_Mech", quick="MC_Mech_quick.cfg", thorough="MC_Mech_thorough.cfg")],
                mcgen=[dict(model="MC_Arith", quick="MC_Arith_quick.cfg", thorough="MC_Arith_thorough.cfg")], drive=True),
    "C20": dict(configs=dict(quick=C20_CONFIGS[:4], thorough=C20_CONFIGS), drive=False, shard=2500,
                cfg_mcgen=[dict(model="MC_ExpMech", template="MC_ExpMech.cfg.tmpl", max_precision=16,
                                quick=dict(KMAX=5, POOL="small"), thorough=dict(KMAX=9, POOL="wide"))],
                mc=[dict(model="MC_Fmt", quick="MC_Fmt_c17.cfg", thorough="MC_Fmt_quick.cfg"),
                    dict(model="MC_Round", quick="MC_Round_c20.cfg", thorough="MC_Round_quick.cfg")]),
    "C19": dict(
        check_forms=["add", "sub", "mul"],
        mc=[dict(model="MC_Programs", quick="MC_Programs_quick.cfg", thorough="MC_Programs_thorough.cfg")],
        gen=[dict(model="Gen_Programs", quick="Gen_Programs.cfg",
                  simulate=dict(quick=dict(num=1500, depth=48), thorough=dict(num=30000, depth=48))),
             MIXED(300, 4000)],
        drive=True,
    ),
}
