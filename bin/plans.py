"""Per-property plans: which models are checked, which behaviours are generated, which drivers run."""

PLANS = {
    "C01": dict(
        check_forms=["add", "sub", "mul"],
        mc=[], gen=[], drive=True,
        assumptions=[],
    ),
    "C18": dict(mc=[], gen=[], drive=True),
}
