"""Per-property plans: which models are checked, which behaviours are generated, which drivers run."""

PLANS = {
    "C01": dict(
        check_forms=["add", "sub", "mul"],
        mc=[], gen=[], drive=True,
        assumptions=[],
    ),
    "C02": dict(
        mcgen=[dict(model="MC_Cmp", quick="MC_Cmp_quick.cfg", thorough="MC_Cmp_thorough.cfg")],
        profiles=["checked", "release"],
        drive=True,
    ),
    "C03": dict(
        mcgen=[dict(model="MC_Cmp", quick="MC_Cmp_quick.cfg", thorough="MC_Cmp_thorough.cfg")],
        drive=True,
    ),
    "C04": dict(drive=True),
    "C05": dict(
        mcgen=[dict(model="MC_Parse", quick="MC_Parse_quick.cfg", thorough="MC_Parse_thorough.cfg")],
        drive=True,
    ),
    "C06": dict(
        mcgen=[dict(model="MC_Round", quick="MC_Round_quick.cfg", thorough="MC_Round_thorough.cfg")],
        drive=True,
    ),
    "C07": dict(
        mcgen=[dict(model="MC_Round", quick="MC_Round_quick.cfg", thorough="MC_Round_thorough.cfg")],
        drive=True,
    ),
    "C08": dict(check_forms=["div"], drive=True,
                mc=[dict(model="MC_Rem", quick="MC_Rem_quick.cfg", thorough="MC_Rem_thorough.cfg")]),
    "C09": dict(check_forms=["rem"], drive=True,
                mc=[dict(model="MC_Rem", quick="MC_Rem_quick.cfg", thorough="MC_Rem_thorough.cfg")]),
    "C10": dict(drive=True),
    "C11": dict(drive=True),
    "C12": dict(drive=True, shard=1500),
    "C13": dict(drive=True),
    "C14": dict(drive=True, shard=700),
    "C15": dict(drive=True),
    "C16": dict(
        mcgen=[dict(model="MC_Round", quick="MC_Round_quick.cfg", thorough="MC_Round_thorough.cfg")],
        drive=True,
    ),
    "C17": dict(drive=True, shard=1500),
    "C18": dict(mc=[], gen=[], drive=True),
    "C19": dict(
        check_forms=["add", "sub", "mul"],
        mc=[dict(model="MC_Programs", quick="MC_Programs_quick.cfg", thorough="MC_Programs_thorough.cfg")],
        gen=[dict(model="Gen_Programs", quick="Gen_Programs.cfg",
                  simulate=dict(quick=dict(num=1500, depth=48), thorough=dict(num=30000, depth=48)))],
        drive=True,
    ),
}
